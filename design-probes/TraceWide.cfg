SPECIFICATION TSpec
CONSTANTS
  W = 16
  Keys <- TKeys
  MaxBuckets = 1024
  ElemSize = 8
  PlanSet = {}
INVARIANT WInv
POSTCONDITION Accepted
CHECK_DEADLOCK FALSE
