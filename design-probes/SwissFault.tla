---------------------------- MODULE SwissFault ----------------------------
(* Probe: fault-aware in-place rehash (hasher panics at k-th call), guard modelled as written. *)
EXTENDS SwissCore

CONSTANTS NeedsDrop, GuardFixed

VARIABLES dropped   \* ghost: set of keys dropped by the guard
fvars == <<vars, dropped>>

\* scope guard of rehash_in_place, as written in src/raw/mod.rs:2876-2887
RECURSIVE GuardLoop(_, _, _)
GuardLoop(t, i, dr) ==
  IF i > t.mask THEN [t |-> t, dr |-> dr]
  ELSE IF t.ctrl[i] = DELETED
       THEN GuardLoop([t EXCEPT !.ctrl = SetCtrl(t.ctrl, t.mask, i, EMPTY),
                                !.items = t.items - 1,
                                !.data[i] = NoKey], i + 1, dr \cup {t.data[i]})
       ELSE GuardLoop(t, i + 1, dr)
Guard(t) ==
  LET r == IF NeedsDrop \/ GuardFixed THEN GuardLoop(t, 0, {}) ELSE [t |-> t, dr |-> {}]
  IN [t |-> [r.t EXCEPT !.gl = Cap(r.t.mask) - r.t.items], dr |-> IF NeedsDrop THEN r.dr ELSE {}, unwound |-> TRUE]

RECURSIVE FRehashInner(_, _, _, _, _)
RECURSIVE FRehashOuter(_, _, _, _, _)
\* n = hasher calls made so far inside this operation; pa = call index that panics (0 = never)
FRehashInner(t, i, plan, n, pa) ==
  IF n + 1 = pa THEN Guard(t)
  ELSE
  LET m == t.mask
      k == t.data[i]
      h == plan[k]
      ni == FindInsertSlot(t.ctrl, m, h)
      p0 == Pos0(h, m)
  IN IF ProbeIndex(i, p0, m) = ProbeIndex(ni, p0, m)
     THEN FRehashOuter([t EXCEPT !.ctrl = SetCtrl(t.ctrl, m, i, h.tag)], i + 1, plan, n + 1, pa)
     ELSE LET prev == t.ctrl[ni]
              c1 == SetCtrl(t.ctrl, m, ni, h.tag)
          IN IF prev = EMPTY
             THEN FRehashOuter([t EXCEPT !.ctrl = SetCtrl(c1, m, i, EMPTY), !.data[ni] = k, !.data[i] = NoKey], i + 1, plan, n + 1, pa)
             ELSE FRehashInner([t EXCEPT !.ctrl = c1, !.data[ni] = k, !.data[i] = t.data[ni]], i, plan, n + 1, pa)
FRehashOuter(t, i, plan, n, pa) ==
  IF i > t.mask THEN [t |-> [t EXCEPT !.gl = Cap(t.mask) - t.items], dr |-> {}, unwound |-> FALSE]
  ELSE IF t.ctrl[i] # DELETED THEN FRehashOuter(t, i + 1, plan, n, pa)
  ELSE FRehashInner(t, i, plan, n, pa)
FRehashInPlace(t, plan, pa) == FRehashOuter(Prep(t), 0, plan, 0, pa)

FInit == Init /\ dropped = {}

\* insert whose reserve(1) goes through in-place rehash with a panicking hasher
FInsertPanic(k, pa) ==
  /\ 1 > gl
  /\ items + 1 <= Cap(mask) \div 2
  /\ LET r == FRehashInPlace(Cur, hp, pa)
     IN /\ r.unwound           \* only behaviours where the panic really fired
        /\ Set(r.t)
        /\ dropped' = r.dr
        /\ ref' = {data'[i] : i \in {j \in 0..mask' : IsFull(ctrl'[j])}}   \* contents after unwind (loss allowed)
  /\ UNCHANGED hp

FNext == \/ (Next /\ dropped' = {})
         \/ \E k \in Keys, pa \in 1..4 : FInsertPanic(k, pa)
FSpec == FInit /\ [][FNext]_fvars
=============================================================================
