#!/bin/bash
# RUSTC_WRAPPER: $1 = rustc path, rest = args. Add --cfg miri only for crate hashbrown.
rustc="$1"; shift
for a in "$@"; do
  if [ "$prev" = "--crate-name" ] && [ "$a" = "hashbrown" ]; then
    exec "$rustc" "$@" --cfg miri
  fi
  prev="$a"
done
exec "$rustc" "$@"
