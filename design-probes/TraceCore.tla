---- MODULE TraceCore ----
EXTENDS SwissCore, Json, IOUtils, TLCExt
Rec == ndJsonDeserialize(IOEnv.TRACE)
VARIABLE l
tvars == <<vars, l>>

\* JSON arrays are 1-based sequences
ObsCtrl(e) == [i \in 0..(Len(e.ctrl) - 1) |-> e.ctrl[i + 1]]
ObsData(e) == [i \in 0..(Len(e.data) - 1) |-> IF e.data[i + 1] = -1 THEN NoKey ELSE e.data[i + 1]]
ObsMatches(e) == /\ mask' = e.mask /\ items' = e.items /\ gl' = e.gl
                 /\ ctrl' = ObsCtrl(e) /\ data' = ObsData(e)

TInit == /\ l = 2
         /\ hp = [k \in Keys |-> Rec[1].plan[k]]
         /\ mask = 0 /\ ctrl = Singleton.ctrl /\ data = Singleton.data /\ items = 0 /\ gl = 0
         /\ ref = {}

IsEv(name) == l <= Len(Rec) /\ Rec[l].op = name /\ l' = l + 1

TInsert == /\ IsEv("insert")
           /\ LET e == Rec[l] IN /\ Insert(e.k) /\ ObsMatches(e) /\ ((e.ret = 1) <=> (e.k \in ref))
TRemove == /\ IsEv("remove")
           /\ LET e == Rec[l] IN /\ Remove(e.k) /\ ObsMatches(e) /\ ((e.ret = 1) <=> (e.k \in ref))
TShrink == /\ IsEv("shrink")
           /\ LET e == Rec[l] IN /\ ShrinkFit /\ ObsMatches(e)
TNext == TInsert \/ TRemove \/ TShrink
TSpec == TInit /\ [][TNext]_tvars

Accepted == IF TLCGet("stats").diameter = Len(Rec) THEN TRUE
            ELSE Print(<<"REJECTED at line", TLCGet("stats").diameter + 1>>, FALSE)
====
