---- MODULE MCF ----
EXTENDS SwissFault
K == {1,2,3,4,5,6,7}
CollidePlans == {[k \in K |-> [pos |-> 0, tag |-> 0]]}
====
