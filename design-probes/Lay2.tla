---------------------------- MODULE Lay2 ----------------------------
EXTENDS Integers
CONSTANTS
  \* @type: Int;
  UMAX,
  \* @type: Int;
  IMAX,
  \* @type: Int;
  W,
  \* @type: Int;
  BITS
VARIABLES
  \* @type: Int;
  size,
  \* @type: Int;
  ealign,
  \* @type: Int;
  buckets

\* @type: (Int) => Int;
Pow2(k) == 2^k
Pows == { Pow2(k) : k \in 0..(BITS-1) }
Aligns == { Pow2(k) : k \in 0..12 }

CtrlAlign == IF ealign > W THEN ealign ELSE W

\* result record; ok = FALSE encodes None
\* @type: () => { ok: Bool, len: Int, off: Int };
LayoutFor ==
  LET prod == size * buckets IN
  IF prod > UMAX THEN [ok |-> FALSE, len |-> 0, off |-> 0] ELSE
  LET s1 == prod + (CtrlAlign - 1) IN
  IF s1 > UMAX THEN [ok |-> FALSE, len |-> 0, off |-> 0] ELSE
  LET off == s1 - (s1 % CtrlAlign)
      len == off + (buckets + W) IN
  IF len > UMAX THEN [ok |-> FALSE, len |-> 0, off |-> 0] ELSE
  IF len > IMAX - (CtrlAlign - 1) THEN [ok |-> FALSE, len |-> 0, off |-> 0]
  ELSE [ok |-> TRUE, len |-> len, off |-> off]

Init == /\ buckets \in Pows
        /\ ealign \in Aligns
        /\ size \in 0..UMAX
        /\ size % ealign = 0
Next == UNCHANGED <<size, ealign, buckets>>

LayoutOK ==
  LET r == LayoutFor IN
  r.ok => /\ r.off >= size * buckets
          /\ r.off % CtrlAlign = 0
          /\ r.off % ealign = 0
          /\ r.len = r.off + buckets + W
          /\ r.len + (CtrlAlign - 1) <= IMAX     \* rounding size up to align stays <= isize::MAX
          /\ buckets + W <= UMAX
          /\ r.off - buckets * size >= 0
          /\ r.off - buckets * size < CtrlAlign  \* padding smaller than one alignment unit
=============================================================================
