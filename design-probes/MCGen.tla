---- MODULE MCGen ----
EXTENDS GenCore
K == 1..24
P1 == {[k \in K |-> [pos |-> IF k % 3 = 0 THEN 0 ELSE IF k % 3 = 1 THEN 15 ELSE 31, tag |-> k % 2]]}
====
