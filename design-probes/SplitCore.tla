---- MODULE SplitCore ----
(* Probe: RawIterRange::split (src/raw/mod.rs:3453) as an action on a set of pending ranges.
   Every interleaving of Split / Step(yield one) / (range exhausted -> removed). *)
EXTENDS Naturals, Integers, FiniteSets, Sequences, TLC
CONSTANTS W, NB
EMPTY == 255
IsFull(c) == c < 128

VARIABLES ctrl, ranges, got, nextId
svars == <<ctrl, ranges, got, nextId>>

Min(S) == CHOOSE x \in S : \A y \in S : x <= y
FullBits(c, ci) == {i \in 0..(W-1) : IsFull(c[ci + i])}
New(c, ci, len, id) == [id |-> id, bits |-> FullBits(c, ci), base |-> ci, next |-> ci + W, end |-> ci + len]

Patterns == [0..(NB-1) -> {0, EMPTY}]
WithTail(p) == [i \in 0..(NB + W - 1) |-> IF i < NB THEN p[i] ELSE IF NB < W THEN EMPTY ELSE p[i - NB]]

SInit == /\ \E p \in Patterns : ctrl = WithTail(p)
         /\ ranges = {New(ctrl, 0, NB, 0)}
         /\ got = [i \in 0..(NB-1) |-> 0]
         /\ nextId = 1

\* next_impl::<true>: one step = either yield one index, or load the next group, or finish (remove range)
Step(r) ==
  /\ r \in ranges
  /\ IF r.bits # {} THEN
        LET i == r.base + Min(r.bits) IN
        /\ i \in 0..(NB-1)                         \* in-range yield (else the action is disabled -> caught by Progress)
        /\ got' = [got EXCEPT ![i] = @ + 1]
        /\ ranges' = (ranges \ {r}) \cup {[r EXCEPT !.bits = r.bits \ {Min(r.bits)}]}
     ELSE IF r.next >= r.end THEN
        /\ ranges' = ranges \ {r} /\ UNCHANGED got
     ELSE
        /\ ranges' = (ranges \ {r}) \cup {[r EXCEPT !.bits = FullBits(ctrl, r.next), !.base = r.next, !.next = r.next + W]}
        /\ UNCHANGED got
  /\ UNCHANGED <<ctrl, nextId>>

Split(r) ==
  /\ r \in ranges
  /\ r.end > r.next
  /\ LET len == r.end - r.next
         mid == ((len \div 2) \div W) * W
         tail == New(ctrl, r.next + mid, len - mid, nextId)
         head == [r EXCEPT !.end = r.next + mid]
     IN ranges' = (ranges \ {r}) \cup {head, tail}
  /\ nextId' = nextId + 1
  /\ UNCHANGED <<ctrl, got>>

SNext == \E r \in ranges : Step(r) \/ Split(r)
SSpec == SInit /\ [][SNext]_svars

AtMostOnce == \A i \in 0..(NB-1) : got[i] <= 1
OnlyFull == \A i \in 0..(NB-1) : got[i] = 1 => IsFull(ctrl[i])
Complete == ranges = {} => \A i \in 0..(NB-1) : (got[i] = 1) <=> IsFull(ctrl[i])
\* no range can get stuck with an out-of-range pending yield
NoStuck == \A r \in ranges : r.bits # {} => r.base + Min(r.bits) \in 0..(NB-1)
GroupAligned == \A r \in ranges : r.next % W = 0 /\ (r.end % W = 0 \/ NB < W)
SInv == AtMostOnce /\ OnlyFull /\ Complete /\ NoStuck /\ GroupAligned
====
