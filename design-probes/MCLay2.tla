---- MODULE MCLay2 ----
EXTENDS Integers
VARIABLES
  \* @type: Int;
  size,
  \* @type: Int;
  ealign,
  \* @type: Int;
  buckets
INSTANCE Lay2 WITH UMAX <- 18446744073709551615, IMAX <- 9223372036854775807, W <- 16, BITS <- 64
====
