SPECIFICATION GSpec
CONSTANTS
  W = 16
  Keys <- K
  MaxBuckets = 1024
  ElemSize = 8
  PlanSet <- P1
  Depth = 50
INVARIANT Inv
INVARIANT Emit
CHECK_DEADLOCK FALSE
