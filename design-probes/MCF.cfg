SPECIFICATION FSpec
CONSTANTS
  W = 2
  Keys <- K
  MaxBuckets = 16
  ElemSize = 8
  PlanSet <- CollidePlans
  NeedsDrop = FALSE
  GuardFixed = TRUE
INVARIANT Inv
CHECK_DEADLOCK FALSE
