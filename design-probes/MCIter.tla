---- MODULE MCIter ----
EXTENDS IterCore
K == 1..16
====
