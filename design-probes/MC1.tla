---- MODULE MC1 ----
EXTENDS SwissCore
K == {1,2,3,4,5}
AllPlans == [K -> [pos : 0..7, tag : {0, 1}]]
CollidePlans == {[k \in K |-> [pos |-> 0, tag |-> 0]]}
SomePlans == [K -> [pos : {0, 3}, tag : {0, 1}]]
====
