---- MODULE MCTraceW ----
EXTENDS TraceWide
TKeys == 1..40
====
