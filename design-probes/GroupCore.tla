---- MODULE GroupCore ----
(* Probe: portable (generic.rs) match_tag as a byte-level borrow chain, vs the byte-wise definition. *)
EXTENDS Naturals, Integers, FiniteSets, Bitwise, TLC
CONSTANTS GW      \* group width in bytes (8)
VARIABLES g, tag
Filler == 255

\* cmp_i = g_i XOR tag ; x = cmp - 0x0101..01 (wrapping), flagged_i = bit7(x_i) /\ ~bit7(cmp_i)
Cmp(i) == g[i] ^^ tag
RECURSIVE Borrow(_)
\* borrow INTO byte i
Borrow(i) == IF i = 0 THEN 0 ELSE IF Cmp(i-1) < 1 + Borrow(i-1) THEN 1 ELSE 0
XByte(i) == (Cmp(i) + 256 - 1 - Borrow(i)) % 256
GenericMatch == {i \in 0..(GW-1) : XByte(i) >= 128 /\ Cmp(i) < 128}
ExactMatch == {i \in 0..(GW-1) : g[i] = tag}

GenericEmpty == {i \in 0..(GW-1) : (g[i] & 128) # 0 /\ (g[i] & 64) # 0}      \* self & (self << 1) & 0x80
ExactEmpty == {i \in 0..(GW-1) : g[i] = 255}
ValidByte(b) == b < 128 \/ b = 128 \/ b = 255

Tags == {0, 1, 42, 127}
GInit == /\ tag \in Tags
         /\ \E p \in {0, 3, GW - 2} : \E b1 \in 0..255, b2 \in 0..255 :
              g = [i \in 0..(GW-1) |-> IF i = p THEN b1 ELSE IF i = p + 1 THEN b2 ELSE Filler]
GNext == UNCHANGED <<g, tag>>
GSpec == GInit /\ [][GNext]_<<g, tag>>

Superset == ExactMatch \subseteq GenericMatch
\* every false positive differs from the tag only in bit 0 and sits above a true match
FPShape == \A i \in GenericMatch \ ExactMatch :
             /\ (g[i] ^^ tag) = 1
             /\ \E j \in ExactMatch : j < i
\* never a false positive on a special byte
NoSpecialFP == \A i \in GenericMatch : g[i] < 128
EmptyAgree == (\A i \in 0..(GW-1) : ValidByte(g[i])) => GenericEmpty = ExactEmpty
GInv == Superset /\ FPShape /\ NoSpecialFP /\ EmptyAgree
====
