---- MODULE TraceWide ----
(* Probe: more of the API composed from the raw operators, validated STRICT against the real code. *)
EXTENDS SwissCore, Json, IOUtils, TLCExt
Rec == ndJsonDeserialize(IOEnv.TRACE)
VARIABLES l, snap
tvars == <<vars, l, snap>>

ObsCtrl(e) == [i \in 0..(Len(e.ctrl) - 1) |-> e.ctrl[i + 1]]
ObsData(e) == [i \in 0..(Len(e.data) - 1) |-> IF e.data[i + 1] = -1 THEN NoKey ELSE e.data[i + 1]]
ObsT(e) == T(e.mask, ObsCtrl(e), ObsData(e), e.items, e.gl)

\* --- HashMap::insert: reserve(1) then find_or_find_insert_slot
InsertT(t0, k, plan) ==
  LET t1 == Reserve(t0, 1, plan)
      r == FoFis(t1.ctrl, t1.data, t1.mask, k, plan[k])
  IN IF r[1] THEN t1
     ELSE LET idx == r[2] old == t1.ctrl[idx]
          IN [t1 EXCEPT !.ctrl = SetCtrl(t1.ctrl, t1.mask, idx, plan[k].tag), !.data[idx] = k,
                        !.items = t1.items + 1, !.gl = IF old = EMPTY THEN t1.gl - 1 ELSE t1.gl]
RemoveT(t0, k, plan) ==
  LET idx == Find(t0.ctrl, t0.data, t0.mask, k, plan[k]) IN IF idx = -1 THEN t0 ELSE EraseAt(t0, idx)

\* --- insert_in_slot / record_item_insert_at
InsertInSlot(t, idx, k, h) ==
  [t EXCEPT !.ctrl = SetCtrl(t.ctrl, t.mask, idx, h.tag), !.data[idx] = k,
            !.items = t.items + 1, !.gl = IF t.ctrl[idx] = EMPTY THEN t.gl - 1 ELSE t.gl]

\* --- RawTable::insert (VacantEntry::insert): find_insert_slot; grow only if growth_left = 0 and slot EMPTY
RawInsertT(t0, k, plan) ==
  LET h == plan[k]
      s0 == FindInsertSlot(t0.ctrl, t0.mask, h)
  IN IF t0.gl = 0 /\ t0.ctrl[s0] = EMPTY
     THEN LET t1 == Reserve(t0, 1, plan) IN InsertInSlot(t1, FindInsertSlot(t1.ctrl, t1.mask, h), k, h)
     ELSE InsertInSlot(t0, s0, k, h)

EntryOrInsertT(t0, k, plan) ==
  IF Find(t0.ctrl, t0.data, t0.mask, k, plan[k]) # -1 THEN t0 ELSE RawInsertT(t0, k, plan)

\* --- rustc_entry: find; vacant => reserve(1) at creation; insert_no_grow
RustcEntryOrInsertT(t0, k, plan) ==
  IF Find(t0.ctrl, t0.data, t0.mask, k, plan[k]) # -1 THEN t0
  ELSE LET t1 == Reserve(t0, 1, plan) IN InsertInSlot(t1, FindInsertSlot(t1.ctrl, t1.mask, plan[k]), k, plan[k])

\* --- shrink_to(m)
ShrinkToT(t0, m, plan) ==
  LET ms == IF t0.items > m THEN t0.items ELSE m
  IN IF ms = 0 THEN Singleton
     ELSE LET mb == CapToBuckets(ms)
          IN IF mb < t0.mask + 1
             THEN (IF t0.items = 0 THEN NewTable(mb) ELSE Resize(t0, ms, plan))
             ELSE t0

ClearNoDropT(t0) ==
  IF t0.mask = 0 THEN [t0 EXCEPT !.items = 0, !.gl = Cap(0)]
  ELSE T(t0.mask, EmptyCtrl(t0.mask), EmptyData(t0.mask), 0, Cap(t0.mask))
ClearT(t0) == IF t0.items = 0 THEN t0 ELSE ClearNoDropT(t0)
DrainAllT(t0) == ClearNoDropT(t0)

RECURSIVE RetainLoop(_, _, _)
\* idxs: ascending sequence of the buckets that were FULL when the iterator was created
RetainLoop(t, idxs, keepKeys) ==
  IF idxs = <<>> THEN t
  ELSE LET i == Head(idxs) IN RetainLoop(IF t.data[i] \in keepKeys THEN t ELSE EraseAt(t, i), Tail(idxs), keepKeys)
RECURSIVE AscSeq(_, _, _)
AscSeq(t, i, acc) == IF i > t.mask THEN acc ELSE AscSeq(t, i + 1, IF IsFull(t.ctrl[i]) THEN Append(acc, i) ELSE acc)
RetainEvenT(t0) == IF t0.mask = 0 THEN t0 ELSE RetainLoop(t0, AscSeq(t0, 0, <<>>), {k \in Keys : k % 2 = 0})

TInit == /\ l = 2
         /\ hp = [k \in Keys |-> Rec[1].plan[k]]
         /\ mask = 0 /\ ctrl = Singleton.ctrl /\ data = Singleton.data /\ items = 0 /\ gl = 0
         /\ ref = {}
         /\ snap = [t |-> Singleton, r |-> {}]

Expected(e) ==
  CASE e.op = "insert" -> InsertT(Cur, e.k, hp)
    [] e.op = "remove" -> RemoveT(Cur, e.k, hp)
    [] e.op = "entry_or_insert" -> EntryOrInsertT(Cur, e.k, hp)
    [] e.op = "rustc_entry_or_insert" -> RustcEntryOrInsertT(Cur, e.k, hp)
    [] e.op = "reserve" -> Reserve(Cur, e.n, hp)
    [] e.op = "shrink_to" -> ShrinkToT(Cur, e.n, hp)
    [] e.op = "retain_even" -> RetainEvenT(Cur)
    [] e.op = "drain_all" -> DrainAllT(Cur)
    [] e.op = "clear" -> ClearT(Cur)
    [] e.op = "snapshot" -> Cur
    [] e.op = "clone_from_snapshot" -> snap.t
    [] e.op = "replace_some" -> Cur
    [] e.op = "replace_none" -> RemoveT(Cur, e.k, hp)
AbsNext(e) ==
  CASE e.op \in {"insert", "entry_or_insert", "rustc_entry_or_insert"} -> ref \cup {e.k}
    [] e.op = "remove" -> ref \ {e.k}
    [] e.op \in {"reserve", "shrink_to", "snapshot", "replace_some"} -> ref
    [] e.op = "replace_none" -> ref \ {e.k}
    [] e.op = "clone_from_snapshot" -> snap.r
    [] e.op = "retain_even" -> {k \in ref : k % 2 = 0}
    [] e.op \in {"drain_all", "clear"} -> {}
RetOK(e) ==
  CASE e.op \in {"insert", "remove", "entry_or_insert", "rustc_entry_or_insert", "replace_some", "replace_none"} -> ((e.ret = 1) <=> (e.k \in ref))
    [] e.op = "drain_all" -> e.ret = Cardinality(ref)
    [] OTHER -> TRUE

TStep == /\ l <= Len(Rec) /\ l' = l + 1
         /\ LET e == Rec[l] IN
              /\ RetOK(e)
              /\ ref' = AbsNext(e)
              /\ Expected(e) = ObsT(e)          \* STRICT as a conjunct in this probe
              /\ Set(ObsT(e))
              /\ snap' = IF e.op = "snapshot" THEN [t |-> Cur, r |-> ref] ELSE snap
         /\ UNCHANGED hp
TSpec == TInit /\ [][TStep]_tvars

WInv == /\ items = NumFull /\ gl = Cap(mask) - items - NumDel /\ NumEmpty >= 1 /\ MirrorOK
        /\ \A i \in 0..mask : IsFull(ctrl[i]) => /\ ctrl[i] = hp[data[i]].tag /\ Reachable(i)
        /\ {data[i] : i \in {j \in 0..mask : IsFull(ctrl[j])}} = ref

Accepted == IF TLCGet("stats").diameter = Len(Rec) THEN TRUE
            ELSE Print(<<"REJECTED at line", TLCGet("stats").diameter + 1, Rec[TLCGet("stats").diameter + 1].op>>, FALSE)
====
