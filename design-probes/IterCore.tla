---- MODULE IterCore ----
(* Probe: RawIterRange / RawIter group walk with per-group snapshot; retain = iterate + erase of yielded buckets.
   Init ranges over ALL control-byte patterns over {FULL, EMPTY, DELETED} for a table of NB buckets. *)
EXTENDS SwissCore

CONSTANTS NB   \* buckets (power of two, >= 4)

VARIABLES it, yielded, keep, phase
ivars == <<vars, it, yielded, keep, phase>>

MirrorOf(c0, m) ==   \* c0: function on 0..m ; build full ctrl with mirror
  [i \in 0..(m + W) |->
     IF i <= m THEN c0[i]
     ELSE IF m + 1 < W THEN (IF i < W THEN EMPTY ELSE IF i - W <= m THEN c0[i - W] ELSE EMPTY)
     ELSE c0[i - (m + 1)]]

Patterns == [0..(NB - 1) -> {0, EMPTY, DELETED}]

RangeNew(c, ci, len) ==
  [bits |-> {i \in 0..(W-1) : IsFull(c[ci + i])}, base |-> ci, next |-> ci + W, end |-> ci + len]

Min(S) == CHOOSE x \in S : \A y \in S : x <= y

\* next_impl::<false>: caller guarantees an element remains. Returns [idx, r]; oob flags an out-of-range group load
RECURSIVE NextUnchecked(_, _, _)
NextUnchecked(r, c, m) ==
  IF r.bits # {} THEN [idx |-> r.base + Min(r.bits), r |-> [r EXCEPT !.bits = r.bits \ {Min(r.bits)}], oob |-> FALSE]
  ELSE IF r.next > m THEN [idx |-> -1, r |-> r, oob |-> TRUE]      \* would load a group at/after index buckets
  ELSE NextUnchecked([r EXCEPT !.bits = {i \in 0..(W-1) : IsFull(c[r.next + i])}, !.base = r.next, !.next = r.next + W], c, m)

IInit == /\ hp = [k \in Keys |-> [pos |-> 0, tag |-> 0]]
         /\ \E p \in Patterns :
              /\ mask = NB - 1
              /\ ctrl = MirrorOf(p, NB - 1)
              /\ data = [i \in 0..(NB - 1) |-> IF IsFull(p[i]) THEN i + 1 ELSE NoKey]
              /\ items = Cardinality({i \in 0..(NB - 1) : IsFull(p[i])})
              /\ gl = 0
              /\ Cardinality({i \in 0..(NB - 1) : p[i] = EMPTY}) >= 1
         /\ ref = {}
         /\ it = [r |-> RangeNew(ctrl, 0, NB), items |-> items]
         /\ yielded = <<>>
         /\ keep \in SUBSET {1}     \* placeholder, set properly below
         /\ phase = "iter"

\* retain step: yield next element, predicate = (index is even) or from keep-set; erase if rejected
RetainStep(P) ==
  /\ phase = "iter"
  /\ it.items > 0
  /\ LET n == NextUnchecked(it.r, ctrl, mask)
     IN /\ ~n.oob
        /\ yielded' = Append(yielded, n.idx)
        /\ it' = [r |-> n.r, items |-> it.items - 1]
        /\ IF n.idx \in P THEN UNCHANGED <<mask, ctrl, data, items, gl>>
           ELSE Set(EraseAt(Cur, n.idx))
  /\ UNCHANGED <<hp, ref, keep, phase>>

Done == /\ phase = "iter" /\ it.items = 0 /\ phase' = "done"
        /\ UNCHANGED <<vars, it, yielded, keep>>

EvenSet == {i \in 0..(NB - 1) : i % 2 = 0}
INext == RetainStep(EvenSet) \/ Done
ISpec == IInit /\ [][INext]_ivars

\* invariants
NoDup == \A i, j \in 1..Len(yielded) : i # j => yielded[i] # yielded[j]
Ascending == \A i \in 1..(Len(yielded) - 1) : yielded[i] < yielded[i + 1]
InRange == \A i \in 1..Len(yielded) : yielded[i] \in 0..(NB - 1)
NeverStuck == (phase = "iter" /\ it.items > 0) => ~NextUnchecked(it.r, ctrl, mask).oob
AtEnd == phase = "done" =>
           /\ {i \in 0..mask : IsFull(ctrl[i])} \subseteq EvenSet
           /\ items = Cardinality({i \in 0..mask : IsFull(ctrl[i])})
           /\ MirrorOK
           /\ NumEmpty >= 1
IterInv == NoDup /\ Ascending /\ InRange /\ NeverStuck /\ AtEnd /\ MirrorOK
====
