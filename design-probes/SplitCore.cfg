SPECIFICATION SSpec
CONSTANTS
  W = 2
  NB = 16
INVARIANT SInv
CHECK_DEADLOCK FALSE
