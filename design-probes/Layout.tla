---------------------------- MODULE Layout ----------------------------
EXTENDS Integers

CONSTANTS
  \* @type: Int;
  UMAX,      \* usize::MAX
  \* @type: Int;
  IMAX,      \* isize::MAX
  \* @type: Int;
  W,
  \* @type: Int;
  BITS

VARIABLES
  \* @type: Int;
  cap,
  \* @type: Int;
  size,
  \* @type: Int;
  alignLog

\* @type: (Int) => Int;
Pow2(k) == 2^k

Pows == { Pow2(k) : k \in 0..(BITS-1) }

MinCap == IF W = 16 /\ size <= 1 THEN 14
          ELSE IF W = 16 /\ size <= 3 THEN 7
          ELSE IF W = 8 /\ size <= 1 THEN 7
          ELSE 3

\* -1 encodes None
CapToBuckets ==
  IF cap < 15 THEN
     LET c == IF MinCap > cap THEN MinCap ELSE cap
     IN IF c < 4 THEN 4 ELSE IF c < 8 THEN 8 ELSE 16
  ELSE IF cap * 8 > UMAX THEN -1
  ELSE LET adj == (cap * 8) \div 7
       IN CHOOSE p \in Pows : p >= adj /\ (p = 1 \/ p \div 2 < adj)

CapOf(mask) == IF mask < 8 THEN mask ELSE ((mask + 1) \div 8) * 7

Init == /\ cap \in 1..UMAX
        /\ size \in 0..UMAX
        /\ alignLog \in 0..12

Next == UNCHANGED <<cap, size, alignLog>>

BucketsOK ==
  LET b == CapToBuckets
  IN b /= -1 => /\ b \in Pows
                /\ CapOf(b - 1) >= cap
                /\ CapOf(b - 1) < b

=============================================================================
