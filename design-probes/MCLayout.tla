---- MODULE MCLayout ----
EXTENDS Integers
VARIABLES
  \* @type: Int;
  cap,
  \* @type: Int;
  size,
  \* @type: Int;
  alignLog
INSTANCE Layout WITH UMAX <- 18446744073709551615, IMAX <- 9223372036854775807, W <- 16, BITS <- 64
====
