---- MODULE MC2 ----
EXTENDS SwissCore
K == 1..8
CollidePlans == {[k \in K |-> [pos |-> 0, tag |-> 0]]}
TwoPlans == {[k \in K |-> [pos |-> IF k % 2 = 0 THEN 0 ELSE 7, tag |-> k % 2]]}
====
