---- MODULE TraceProp ----
(* Probe: single-pass trace validation. State follows the OBSERVED state; PROPERTY conditions are conjuncts;
   STRICT comparison only feeds the drift counter. *)
EXTENDS SwissCore, Json, IOUtils, TLCExt
Rec == ndJsonDeserialize(IOEnv.TRACE)
VARIABLES l, drift
tvars == <<vars, l, drift>>

ObsCtrl(e) == [i \in 0..(Len(e.ctrl) - 1) |-> e.ctrl[i + 1]]
ObsData(e) == [i \in 0..(Len(e.data) - 1) |-> IF e.data[i + 1] = -1 THEN NoKey ELSE e.data[i + 1]]
ObsT(e) == T(e.mask, ObsCtrl(e), ObsData(e), e.items, e.gl)

\* functional forms of the operations (same operators as the exhaustive spec)
InsertT(t0, k, plan) ==
  LET t1 == Reserve(t0, 1, plan)
      r == FoFis(t1.ctrl, t1.data, t1.mask, k, plan[k])
  IN IF r[1] THEN t1
     ELSE LET idx == r[2] old == t1.ctrl[idx]
          IN [t1 EXCEPT !.ctrl = SetCtrl(t1.ctrl, t1.mask, idx, plan[k].tag), !.data[idx] = k,
                        !.items = t1.items + 1, !.gl = IF old = EMPTY THEN t1.gl - 1 ELSE t1.gl]
RemoveT(t0, k, plan) ==
  LET idx == Find(t0.ctrl, t0.data, t0.mask, k, plan[k]) IN IF idx = -1 THEN t0 ELSE EraseAt(t0, idx)
ShrinkT(t0, plan) ==
  IF t0.items = 0 THEN Singleton
  ELSE IF CapToBuckets(t0.items) < t0.mask + 1 THEN Resize(t0, t0.items, plan) ELSE t0

TInit == /\ l = 2 /\ drift = 0 /\ TLCSet(42, 0)
         /\ hp = [k \in Keys |-> Rec[1].plan[k]]
         /\ mask = 0 /\ ctrl = Singleton.ctrl /\ data = Singleton.data /\ items = 0 /\ gl = 0
         /\ ref = {}

Follow(e) == Set(ObsT(e))
AbsOf(t) == {t.data[i] : i \in {j \in 0..t.mask : IsFull(t.ctrl[j])}}

Step(name, expected(_), absNext(_), retOK(_)) ==
  /\ l <= Len(Rec) /\ Rec[l].op = name /\ l' = l + 1
  /\ LET e == Rec[l] IN
       /\ retOK(e)                                   \* PROPERTY: result equals abstract result
       /\ ref' = absNext(e)                          \* abstract step
       /\ AbsOf(ObsT(e)) = absNext(e)                \* PROPERTY: refinement on observed state
       /\ Follow(e)                                  \* state := observed
       /\ drift' = drift + (IF expected(e) = ObsT(e) THEN 0 ELSE 1)   \* STRICT: only counted
       /\ TLCSet(42, drift')
  /\ UNCHANGED hp

TInsert == Step("insert", LAMBDA e : InsertT(Cur, e.k, hp), LAMBDA e : ref \cup {e.k}, LAMBDA e : ((e.ret = 1) <=> (e.k \in ref)))
TRemove == Step("remove", LAMBDA e : RemoveT(Cur, e.k, hp), LAMBDA e : ref \ {e.k}, LAMBDA e : ((e.ret = 1) <=> (e.k \in ref)))
TShrink == Step("shrink", LAMBDA e : ShrinkT(Cur, hp), LAMBDA e : ref, LAMBDA e : TRUE)
TNext == TInsert \/ TRemove \/ TShrink
TSpec == TInit /\ [][TNext]_tvars

\* PROPERTY-mode invariant: safety form of the growth accounting (<=), everything else as Inv
PInv == /\ items = NumFull
        /\ gl <= Cap(mask) - items - NumDel
        /\ NumEmpty >= 1
        /\ MirrorOK
        /\ \A i \in 0..mask : IsFull(ctrl[i]) => /\ data[i] \in Keys /\ ctrl[i] = hp[data[i]].tag /\ Reachable(i)
        /\ items = Cardinality(ref)

Accepted == /\ PrintT(<<"DRIFT", TLCGet(42), "of", Len(Rec) - 1>>)
            /\ IF TLCGet("stats").diameter = Len(Rec) THEN TRUE
               ELSE Print(<<"REJECTED at line", TLCGet("stats").diameter + 1>>, FALSE)
====
