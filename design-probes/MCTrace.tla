---- MODULE MCTrace ----
EXTENDS TraceCore
TKeys == 1..40
TPlan == {}
====
