SPECIFICATION Spec
CONSTANTS
  W = 8
  Keys <- K
  MaxBuckets = 64
  ElemSize = 8
  PlanSet <- CollidePlans
INVARIANT Inv
CHECK_DEADLOCK FALSE
