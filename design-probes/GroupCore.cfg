SPECIFICATION GSpec
CONSTANTS GW = 8
INVARIANT GInv
CHECK_DEADLOCK FALSE
