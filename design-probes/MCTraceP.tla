---- MODULE MCTraceP ----
EXTENDS TraceProp
TKeys == 1..40
====
