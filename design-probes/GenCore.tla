---- MODULE GenCore ----
(* Probe: behaviour generator. History variable `hist` records each op with expected result and
   expected next state; one JSON line per behaviour is printed when the behaviour is complete. *)
EXTENDS SwissCore, Json, TLCExt

CONSTANTS Depth

VARIABLE hist
gvars == <<vars, hist>>

StateRec == [mask |-> mask', items |-> items', gl |-> gl',
             ctrl |-> [i \in 1..(mask' + 1 + (IF mask' = 0 THEN W - 1 ELSE W)) |-> ctrl'[i - 1]],
             data |-> [i \in 1..(mask' + 1) |-> IF IsFull(ctrl'[i - 1]) THEN data'[i - 1] ELSE -1]]

GInit == Init /\ hist = <<>>

GInsert(k) == /\ Insert(k)
              /\ hist' = Append(hist, [op |-> "insert", k |-> k, ret |-> IF k \in ref THEN 1 ELSE 0, st |-> StateRec])
GRemove(k) == /\ Remove(k)
              /\ hist' = Append(hist, [op |-> "remove", k |-> k, ret |-> IF k \in ref THEN 1 ELSE 0, st |-> StateRec])
GShrink == /\ ShrinkFit
           /\ hist' = Append(hist, [op |-> "shrink", k |-> 0, ret |-> 0, st |-> StateRec])

GNext == /\ Len(hist) < Depth
         /\ \/ \E k \in Keys : GInsert(k)
            \/ \E k \in Keys : GRemove(k)
            \/ GShrink
GSpec == GInit /\ [][GNext]_gvars

\* print one line per completed behaviour
Emit == (Len(hist) = Depth) => PrintT(<<"REPLAY", ToJson([plan |-> [k \in Keys |-> hp[k]], steps |-> hist])>>)
====
