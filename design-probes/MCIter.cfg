SPECIFICATION ISpec
CONSTANTS
  W = 16
  NB = 8
  Keys <- K
  MaxBuckets = 64
  ElemSize = 8
  PlanSet = {}
INVARIANT IterInv
CHECK_DEADLOCK FALSE
