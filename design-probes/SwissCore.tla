---------------------------- MODULE SwissCore ----------------------------
(* Feasibility prototype: control-byte level model of RawTableInner. *)
EXTENDS Naturals, Integers, Sequences, FiniteSets, TLC

CONSTANTS W,          \* group width
          Keys,       \* key universe
          MaxBuckets, \* state constraint helper
          ElemSize,
          PlanSet     \* set of hash plans [Keys -> [pos, tag]]

EMPTY   == 255
DELETED == 128
IsFull(c)    == c < 128
IsSpecial(c) == c >= 128
NoKey == "nokey"

VARIABLES mask, ctrl, data, items, gl, hp, ref
vars == <<mask, ctrl, data, items, gl, hp, ref>>

Buckets == mask + 1
Cap(m) == IF m < 8 THEN m ELSE ((m + 1) \div 8) * 7

RECURSIVE NextPow2From(_, _)
NextPow2From(p, n) == IF p >= n THEN p ELSE NextPow2From(2 * p, n)
NextPow2(n) == NextPow2From(1, n)

MinCap == IF W = 16 /\ ElemSize <= 1 THEN 14
          ELSE IF W = 16 /\ ElemSize <= 3 THEN 7
          ELSE IF W = 8 /\ ElemSize <= 1 THEN 7
          ELSE 3
CapToBuckets(cap0) ==
  IF cap0 < 15 THEN
     LET cap == IF MinCap > cap0 THEN MinCap ELSE cap0
     IN IF cap < 4 THEN 4 ELSE IF cap < 8 THEN 8 ELSE 16
  ELSE NextPow2((cap0 * 8) \div 7)

\* (a - b) mod 2^k with usize wrap-around, then & m
SubMask(a, b, m) == (a - b) % (m + 1)

SetCtrl(c, m, i, v) ==
  LET i2 == SubMask(i, W, m) + W
  IN [c EXCEPT ![i] = v, ![i2] = v]

Pos0(h, m) == h.pos % (m + 1)
NextPos(p, stride, m) == (p + stride) % (m + 1)

\* lowest offset i in 0..W-1 with P(c[p+i]); W if none
LowestIn(c, p, P(_)) ==
  LET S == {i \in 0..(W-1) : P(c[p + i])}
  IN IF S = {} THEN W ELSE CHOOSE i \in S : \A j \in S : i <= j

HasEmpty(c, p) == \E i \in 0..(W-1) : c[p + i] = EMPTY

FixInsertSlot(c, m, idx) ==
  IF IsFull(c[idx]) THEN LowestIn(c, 0, IsSpecial) ELSE idx

RECURSIVE FindInsertSlotRec(_, _, _, _)
FindInsertSlotRec(c, m, p, stride) ==
  LET i == LowestIn(c, p, IsSpecial)
  IN IF i < W THEN FixInsertSlot(c, m, (p + i) % (m + 1))
     ELSE FindInsertSlotRec(c, m, NextPos(p, stride + W, m), stride + W)
FindInsertSlot(c, m, h) == FindInsertSlotRec(c, m, Pos0(h, m), 0)

\* find: returns index or -1
RECURSIVE FindRec(_, _, _, _, _, _, _)
FindRec(c, d, m, k, tag, p, stride) ==
  LET M == {i \in 0..(W-1) : c[p + i] = tag /\ d[(p + i) % (m + 1)] = k}
  IN IF M # {} THEN (p + (CHOOSE i \in M : \A j \in M : i <= j)) % (m + 1)
     ELSE IF HasEmpty(c, p) THEN -1
     ELSE FindRec(c, d, m, k, tag, NextPos(p, stride + W, m), stride + W)
Find(c, d, m, k, h) == FindRec(c, d, m, k, h.tag, Pos0(h, m), 0)

\* find_or_find_insert_slot_inner: <<found, idx>>
RECURSIVE FoFisRec(_, _, _, _, _, _, _, _)
FoFisRec(c, d, m, k, tag, p, stride, slot) ==
  LET M == {i \in 0..(W-1) : c[p + i] = tag /\ d[(p + i) % (m + 1)] = k}
      i0 == LowestIn(c, p, IsSpecial)
      slot2 == IF slot = -1 /\ i0 < W THEN (p + i0) % (m + 1) ELSE slot
  IN IF M # {} THEN <<TRUE, (p + (CHOOSE i \in M : \A j \in M : i <= j)) % (m + 1)>>
     ELSE IF HasEmpty(c, p) THEN <<FALSE, FixInsertSlot(c, m, slot2)>>
     ELSE FoFisRec(c, d, m, k, tag, NextPos(p, stride + W, m), stride + W, slot2)
FoFis(c, d, m, k, h) == FoFisRec(c, d, m, k, h.tag, Pos0(h, m), 0, -1)

EmptyCtrl(m) == [i \in 0..(m + W) |-> EMPTY]
EmptyData(m) == [i \in 0..m |-> NoKey]

\* table record
T(m, c, d, it, g) == [mask |-> m, ctrl |-> c, data |-> d, items |-> it, gl |-> g]
Singleton == T(0, [i \in 0..(W-1) |-> EMPTY], [i \in 0..0 |-> NoKey], 0, 0)
NewTable(buckets) == T(buckets - 1, EmptyCtrl(buckets - 1), EmptyData(buckets - 1), 0, Cap(buckets - 1))

FullIdx(t) == {i \in 0..t.mask : IsFull(t.ctrl[i])}

\* resize: reinsert each full bucket ascending
RECURSIVE ResizeLoop(_, _, _, _)
ResizeLoop(old, new, i, plan) ==
  IF i > old.mask THEN new
  ELSE IF ~IsFull(old.ctrl[i]) THEN ResizeLoop(old, new, i + 1, plan)
  ELSE LET k == old.data[i]
           h == plan[k]
           idx == FindInsertSlot(new.ctrl, new.mask, h)
           c2 == SetCtrl(new.ctrl, new.mask, idx, h.tag)
       IN ResizeLoop(old, [new EXCEPT !.ctrl = c2, !.data[idx] = k], i + 1, plan)
Resize(t, cap, plan) ==
  LET nt0 == IF cap = 0 THEN Singleton ELSE NewTable(CapToBuckets(cap))
      nt1 == IF t.items = 0 THEN nt0 ELSE ResizeLoop(t, nt0, 0, plan)
  IN [nt1 EXCEPT !.items = t.items, !.gl = nt0.gl - t.items]

\* prepare_rehash_in_place
Prep(t) ==
  LET m == t.mask
      c1 == [i \in 0..(m + W) |-> IF i <= m THEN (IF IsFull(t.ctrl[i]) THEN DELETED ELSE EMPTY) ELSE t.ctrl[i]]
      \* group-wise conversion covers indices up to roundup; for m+1 < W the aligned group store covers 0..W-1
      c1b == IF m + 1 < W
             THEN [i \in 0..(m + W) |-> IF i < W THEN (IF IsFull(t.ctrl[i]) THEN DELETED ELSE EMPTY) ELSE t.ctrl[i]]
             ELSE c1
      c2 == IF m + 1 < W
            THEN [i \in 0..(m + W) |-> IF i >= W THEN c1b[i - W] ELSE c1b[i]]
            ELSE [i \in 0..(m + W) |-> IF i > m THEN c1b[i - (m + 1)] ELSE c1b[i]]
  IN [t EXCEPT !.ctrl = c2]

ProbeIndex(pos, p0, m) == (((pos - p0) % (m + 1))) \div W

RECURSIVE RehashInner(_, _, _)
RECURSIVE RehashOuter(_, _, _)
RehashInner(t, i, plan) ==
  LET m == t.mask
      k == t.data[i]
      h == plan[k]
      ni == FindInsertSlot(t.ctrl, m, h)
      p0 == Pos0(h, m)
  IN IF ProbeIndex(i, p0, m) = ProbeIndex(ni, p0, m)
     THEN RehashOuter([t EXCEPT !.ctrl = SetCtrl(t.ctrl, m, i, h.tag)], i + 1, plan)
     ELSE LET prev == t.ctrl[ni]
              c1 == SetCtrl(t.ctrl, m, ni, h.tag)
          IN IF prev = EMPTY
             THEN RehashOuter([t EXCEPT !.ctrl = SetCtrl(c1, m, i, EMPTY), !.data[ni] = k, !.data[i] = NoKey], i + 1, plan)
             ELSE RehashInner([t EXCEPT !.ctrl = c1, !.data[ni] = k, !.data[i] = t.data[ni]], i, plan)
RehashOuter(t, i, plan) ==
  IF i > t.mask THEN t
  ELSE IF t.ctrl[i] # DELETED THEN RehashOuter(t, i + 1, plan)
  ELSE RehashInner(t, i, plan)
RehashInPlace(t, plan) ==
  LET t2 == RehashOuter(Prep(t), 0, plan)
  IN [t2 EXCEPT !.gl = Cap(t2.mask) - t2.items]

ReserveRehash(t, additional, plan) ==
  LET ni == t.items + additional
      fc == Cap(t.mask)
  IN IF ni <= fc \div 2 THEN RehashInPlace(t, plan)
     ELSE Resize(t, IF ni > fc + 1 THEN ni ELSE fc + 1, plan)
Reserve(t, additional, plan) == IF additional > t.gl THEN ReserveRehash(t, additional, plan) ELSE t

EraseAt(t, idx) ==
  LET m == t.mask
      ib == SubMask(idx, W, m)
      \* leading zeros of empty_before: count non-EMPTY from top of group at ib
      LZ == LET S == {i \in 0..(W-1) : t.ctrl[ib + i] = EMPTY}
            IN IF S = {} THEN W ELSE (W - 1) - (CHOOSE i \in S : \A j \in S : i >= j)
      TZ == LET S == {i \in 0..(W-1) : t.ctrl[idx + i] = EMPTY}
            IN IF S = {} THEN W ELSE CHOOSE i \in S : \A j \in S : i <= j
      del == LZ + TZ >= W
  IN [t EXCEPT !.ctrl = SetCtrl(t.ctrl, m, idx, IF del THEN DELETED ELSE EMPTY),
               !.gl = IF del THEN t.gl ELSE t.gl + 1,
               !.items = t.items - 1,
               !.data[idx] = NoKey]

Cur == T(mask, ctrl, data, items, gl)
Set(t) == /\ mask' = t.mask /\ ctrl' = t.ctrl /\ data' = t.data /\ items' = t.items /\ gl' = t.gl

Init == /\ hp \in PlanSet
        /\ mask = 0 /\ ctrl = Singleton.ctrl /\ data = Singleton.data /\ items = 0 /\ gl = 0
        /\ ref = {}

Insert(k) ==
  LET t1 == Reserve(Cur, 1, hp)
      r == FoFis(t1.ctrl, t1.data, t1.mask, k, hp[k])
  IN /\ IF r[1] THEN Set(t1)
        ELSE LET idx == r[2]
                 old == t1.ctrl[idx]
             IN Set([t1 EXCEPT !.ctrl = SetCtrl(t1.ctrl, t1.mask, idx, hp[k].tag),
                               !.data[idx] = k,
                               !.items = t1.items + 1,
                               !.gl = IF old = EMPTY THEN t1.gl - 1 ELSE t1.gl])
     /\ ref' = ref \cup {k}
     /\ UNCHANGED hp

Remove(k) ==
  LET idx == Find(ctrl, data, mask, k, hp[k])
  IN /\ IF idx = -1 THEN UNCHANGED <<mask, ctrl, data, items, gl>>
        ELSE Set(EraseAt(Cur, idx))
     /\ (idx # -1) <=> (k \in ref)     \* return value agrees with reference
     /\ ref' = ref \ {k}
     /\ UNCHANGED hp

ShrinkFit ==
  /\ LET t == Cur
         ms == t.items
     IN IF ms = 0 THEN Set(Singleton)
        ELSE LET mb == CapToBuckets(ms)
             IN IF mb < t.mask + 1 THEN Set(Resize(t, ms, hp)) ELSE UNCHANGED <<mask, ctrl, data, items, gl>>
  /\ UNCHANGED <<hp, ref>>

Next == \/ \E k \in Keys : Insert(k)
        \/ \E k \in Keys : Remove(k)
        \/ ShrinkFit

Spec == Init /\ [][Next]_vars

\* ---------- invariants
NumFull == Cardinality({i \in 0..mask : IsFull(ctrl[i])})
NumDel  == Cardinality({i \in 0..mask : ctrl[i] = DELETED})
NumEmpty == Cardinality({i \in 0..mask : ctrl[i] = EMPTY})
MirrorOK == IF mask = 0 THEN \A i \in 0..(W-1) : ctrl[i] = EMPTY
            ELSE IF mask + 1 < W
                 THEN /\ \A i \in 0..mask : ctrl[W + i] = ctrl[i]
                      /\ \A i \in (mask+1)..(W-1) : ctrl[i] = EMPTY
                 ELSE \A i \in 0..(W-1) : ctrl[mask + 1 + i] = ctrl[i]
Reachable(i) == Find(ctrl, data, mask, data[i], hp[data[i]]) = i
Inv == /\ items = NumFull
       /\ gl = Cap(mask) - items - NumDel
       /\ NumEmpty >= 1
       /\ MirrorOK
       /\ \A i \in 0..mask : IsFull(ctrl[i]) => /\ data[i] \in Keys
                                                 /\ ctrl[i] = hp[data[i]].tag
                                                 /\ Reachable(i)
       /\ {data[i] : i \in {j \in 0..mask : IsFull(ctrl[j])}} = ref
       /\ items = Cardinality(ref)
Bound == mask + 1 <= MaxBuckets
=============================================================================
