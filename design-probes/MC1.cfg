SPECIFICATION Spec
CONSTANTS
  W = 2
  Keys <- K
  MaxBuckets = 16
  ElemSize = 8
  PlanSet <- SomePlans
INVARIANT Inv
INVARIANT Bound
CHECK_DEADLOCK FALSE
