------------------------------ MODULE HbTrace ------------------------------
(***************************************************************************)
(* Trace specification: validates an NDJSON trace recorded from the real   *)
(* hashbrown collections (harness/, hooks under cfg(hashbrown_verif))      *)
(* against the specification, one recorded call per step.                  *)
(*                                                                         *)
(* Verdict rule (DESIGN 2.2), single pass:                                 *)
(*  - the specification's state FOLLOWS the observed state;                *)
(*  - PROPERTY checks (result = abstract result, Abs(observed) = abstract  *)
(*    next state, drops = abstract drops, structural invariant, capacity   *)
(*    and allocation contract) decide the verdict: the first failing step  *)
(*    is stored in TLC register 43 and stops the trace;                    *)
(*  - the STRICT comparison "observed state = state computed by the        *)
(*    concrete operators" only increments the drift counter (register 42). *)
(***************************************************************************)
EXTENDS HbTableOps, Json, IOUtils, TLCExt, SequencesExt

Rec == ndJsonDeserialize(IOEnv.TRACE)
\* the property this validation run decides (C01 ... C20); "ALL" = every check is decisive
PROP == IF "PROP" \in DOMAIN IOEnv THEN IOEnv.PROP ELSE "ALL"

(* Which property a failed check is evidence against.  A failure that is not attributed to PROP
   is counted as "foreign" (register 46), the abstract state is re-synchronised with the
   observation and validation continues, so a check never raises an alarm for another property. *)
ParOps == {"par_iter", "par_drain", "into_par_iter", "par_extend", "par_eq", "par_union", "par_intersection", "par_difference",
           "par_symmetric_difference", "par_is_subset", "par_is_superset", "par_is_disjoint"}
EntryOps == {"e_or_insert", "e_or_insert_with", "e_or_insert_with_key", "e_and_modify_or_insert", "e_insert", "e_remove",
             "e_remove_entry", "e_occ_insert", "e_occ_get_mut", "e_replace_some", "e_replace_none", "e_and_replace_some",
             "e_and_replace_none", "e_vacant_drop", "e_insert_entry", "e_into_key", "er_or_insert", "er_insert",
             "er_and_modify_or_insert", "er_drop", "er_insert_entry"}
RawEntryOps == {"rc_or_insert", "rc_insert", "rc_remove", "rc_vacant_drop", "rc_insert_entry", "re_from_key_or_insert",
                "re_hashed_or_insert", "re_from_hash_or_insert", "re_insert_hashed_nocheck", "re_insert_with_hasher",
                "re_remove", "re_replace_some", "re_replace_none", "re_drop", "re_get"}
KindProp(kind) == IF kind = "map" THEN {"C01"} ELSE IF kind = "set" THEN {"C07"} ELSE {"C06"}
OpProp(op, kind) ==
  {"C18"} \cup
  (IF op \in EntryOps THEN {"C14"} \cup KindProp(kind)
   ELSE IF op \in RawEntryOps THEN {"C14"}
   ELSE IF op \in {"retain", "extract_if", "t_extract_if", "drain"} THEN {"C10"} \cup KindProp(kind) \cup (IF op = "drain" THEN {"C09"} ELSE {})
   ELSE IF op \in {"iter", "into_iter", "iter_default"} THEN {"C09"}
   ELSE IF op \in ParOps THEN {"C19"} \cup (IF op = "par_drain" THEN {"C10"} ELSE {})
   ELSE IF op \in {"serde_roundtrip", "serde_de", "serde_de_in_place"} THEN {"C20"}
   ELSE IF op \in {"clone", "clone_from", "eq"} THEN {"C11"} \cup (IF kind = "set" /\ op = "eq" THEN {"C07"} ELSE {})
   ELSE IF op \in {"get_many_mut", "get_many_kv_mut", "t_get_many_mut"} THEN {"C15"} \cup KindProp(kind)
   ELSE IF op \in {"s_entry_insert", "s_entry_or_insert", "s_entry_remove", "s_entry_get", "s_entry_into_value"} THEN {"C14", "C07"}
   ELSE IF op = "try_reserve" THEN {"C12", "C08"}
   ELSE IF op \in {"reserve", "shrink_to", "shrink_to_fit", "with_capacity", "new"} THEN {"C08"} \cup KindProp(kind)
   ELSE KindProp(kind))
SafetyProps == {"C02", "C04", "C05", "C13"}
\* invariant clauses the iterators rely on directly
IterInv == {"I1 shape", "I2 mirror bytes", "I3 items = number of FULL bytes", "I9 FULL <=> slot holds an element"}
OpForms == {"op_or", "op_and", "op_xor", "op_sub"}

VARIABLES l,      \* next line of the trace
          hd,     \* header of the current scenario (reset event)
          tb,     \* sequence of table records (observed state)
          tx,     \* per table: [lv, pl, len, cap, asz]
          ab,     \* sequence of abstract contents
          lk,     \* leaked by mem::forget: [ids, blocks]; dv = tables whose contents diverged from the reference model
          ok      \* the current observed state satisfied the invariant (STRICT operators may be applied)
tvars == <<l, hd, tb, tx, ab, lk, ok>>

---------------------------------------------------------------------------
(* try_reserve with amounts near the 64-bit limits (the trace carries a class code n < 0 and an offset j, see
   harness decode_amount): which guard of the checked arithmetic must fire.  0 = Ok, 1 = CapacityOverflow,
   2 = AllocError (the request is representable, the allocator refuses it), -1 = not determined here.
   The numeric agreement of the helper functions with HbLayout is C17's job. *)
TryClass(n, j, es) ==
  CASE n \in {-1, -2, -3} -> 1                                   \* len + additional or additional * 8 wraps
    [] n = -4 -> IF es >= 3 THEN 1 ELSE 2                          \* 2^61 buckets
    [] n = -5 -> IF j >= 1 \/ es >= 1 THEN 1 ELSE 2               \* 2^62 buckets (or additional * 8 wraps)
    [] n = -6 -> 2                                                 \* 2^41 buckets: representable, refused
    [] OTHER -> -1

ObsTable(s, es) ==
  [mask |-> s.m,
   ctrl |-> [i \in 0..(Len(s.c) - 1) |-> s.c[i + 1]],
   data |-> [i \in 0..(Len(s.d) - 1) |-> s.d[i + 1]],
   items |-> s.it, gl |-> s.g, es |-> es]
ObsX(s) == [lv |-> s.lv = 1, pl |-> s.pl, len |-> s.len, cap |-> s.cap, asz |-> s.asz, mc |-> s.cap]
\* mc = the largest capacity() the table has reported while it held its current allocation
WithMc(old, new) == [i \in 1..Len(new) |->
   IF i <= Len(old) /\ old[i].lv /\ new[i].lv /\ old[i].asz = new[i].asz /\ old[i].mc > new[i].cap THEN [new[i] EXCEPT !.mc = old[i].mc] ELSE new[i]]
SameX(a, b) == a.lv = b.lv /\ a.pl = b.pl /\ a.len = b.len /\ a.cap = b.cap /\ a.asz = b.asz

PlanFn(h, pl) == [k \in 0..(Len(h.plans[pl + 1]) - 1) |-> [pos |-> h.plans[pl + 1][k + 1][1], tag |-> h.plans[pl + 1][k + 1][2]]]

Count(s, x) == Cardinality({i \in 1..Len(s) : s[i] = x})
BagEq(s1, s2) == /\ Len(s1) = Len(s2)
                 /\ \A x \in SeqToSet(s1) \cup SeqToSet(s2) : Count(s1, x) = Count(s2, x)

BlockOf(t, h) == <<LayoutSize(h.es, h.ea, t.mask + 1), CtrlAlign(h.ea)>>
RECURSIVE LiveBlocks(_, _, _, _)
LiveBlocks(tbs, txs, h, i) ==
  IF i > Len(tbs) THEN <<>>
  ELSE (IF txs[i].lv /\ tbs[i].mask # 0 THEN <<BlockOf(tbs[i], h)>> ELSE <<>>) \o LiveBlocks(tbs, txs, h, i + 1)

\* structure without object identities (for clones)
NoIds(t) == [t EXCEPT !.data = [i \in 0..t.mask |-> IF t.data[i] = NoElem THEN NoElem
                                                   ELSE <<t.data[i][1], 0, t.data[i][3], 0, t.data[i][5], t.data[i][6]>>]]
KVH(A) == {<<x[1], x[3], x[5], x[6]>> : x \in A}
NoIdsH(t) == [t EXCEPT !.data = [i \in 0..t.mask |-> IF t.data[i] = NoElem THEN NoElem ELSE <<t.data[i][1], 0, t.data[i][3], 0, 0, 0>>]]
IdCount(A) == Cardinality({x \in A : x[2] > 0}) + Cardinality({x \in A : x[4] > 0})

---------------------------------------------------------------------------
(* operations whose abstract result needs the observed state *)

\* iteration: e.y = entries <<idx, k, id, v, vid>>, marker <<-9>> where next() was switched to fold,
\* record <<-7, idx...>> = what a clone taken at that point yielded
IterOK(e, t, A) ==
  LET ents == SelectSeq(e.y, LAMBDA y : y[1] >= 0 \/ y[1] = -2)
      idxs == [i \in 1..Len(ents) |-> ents[i][1]]
      proj(z) == IF e.n \in {0, 3} THEN <<z[1], z[2], z[3], z[4]>>
                 ELSE IF e.n = 1 THEN <<z[1], z[2], -1, -1>> ELSE <<-1, -1, z[3], z[4]>>
      clonePos == {i \in 1..Len(e.y) : e.y[i][1] = -7}
  IN /\ Len(ents) = Cardinality(A)
     /\ NoDupSeq(idxs)
     /\ SeqToSet(idxs) = FullIdx(t)
     /\ \A i \in 1..Len(ents) : <<ents[i][2], ents[i][3], ents[i][4], ents[i][5]>> = proj(t.data[ents[i][1]])
     /\ HintsOK(e.r, Cardinality(A))
     /\ \A p \in clonePos :
          LET before == {e.y[i][1] : i \in {q \in 1..(p - 1) : e.y[q][1] >= 0}}
              cy == e.y[p]
              cidx == [i \in 1..(Len(cy) - 1) |-> cy[i + 1]]
          IN NoDupSeq(cidx) /\ SeqToSet(cidx) = FullIdx(t) \ before
     /\ e.pn = ""
IterStrict(e) ==   \* ascending bucket order
  LET ents == SelectSeq(e.y, LAMBDA y : y[1] >= 0)
  IN \A i \in 1..(Len(ents) - 1) : ents[i][1] < ents[i + 1][1]

\* get_many_mut: e.ks requested classes, e.r = flags ++ bucket indices of the returned references
GetManyAbs(e, A, obs) ==
  LET N == Len(e.ks)
      present(i) == Has(A, e.ks[i])
      dup == \E i, j \in 1..N : i # j /\ e.ks[i] = e.ks[j] /\ present(i)
      upd == {Get(A, e.ks[i]) : i \in {q \in 1..N : present(q)}}
      newA == (A \ upd) \cup {SetV(Get(A, e.ks[i]), e.v + (i - 1)) : i \in {q \in 1..N : present(q)}}
  IN IF dup THEN AR(A, {}, e.pn = "dup")
     ELSE AR(newA, {},
             /\ e.pn = "" /\ Len(e.r) = 2 * N
             /\ \A i \in 1..N : e.r[i] = (IF present(i) THEN 1 ELSE 0)
             \* each returned reference points into the bucket holding the requested entry; no two alias
             /\ \A i \in 1..N : IF present(i) THEN e.r[N + i] \in FullIdx(obs) /\ obs.data[e.r[N + i]][1] = e.ks[i]
                                ELSE e.r[N + i] = -1
             /\ \A i, j \in 1..N : (i # j /\ present(i) /\ present(j)) => e.r[N + i] # e.r[N + j])

\* HashTable::get_many_mut with (possibly sloppy) closures: e.ks classes, e.j = 1 => closure i also accepts class+1;
\* e.r = flags ++ bucket indices ++ classes of the returned elements
TGetManyAbs(e, A, pre, h0, tr) ==
  LET N == Len(e.ks)
      accE(i, x) == (x[1] = e.ks[i] /\ x[5] = h0[e.ks[i]].pos /\ x[6] = h0[e.ks[i]].tag) \/ (e.j = 1 /\ x[1] = e.ks[i] + 1)
      found == {i \in 1..N : e.r[i] = 1}
      upd == {pre.data[e.r[N + i]] : i \in found}
      newA == IF tr THEN (A \ upd) \cup {SetV(pre.data[e.r[N + i]], e.v + (i - 1)) : i \in found} ELSE A
  IN IF e.pn = "dup"
     THEN AR(A, {}, \E i, j \in 1..N : i # j /\ \E x \in A : accE(i, x) /\ accE(j, x))
     ELSE IF e.pn # "" \/ Len(e.r) # 3 * N THEN AR(A, {}, FALSE)
     ELSE AR(newA, {},
             /\ \A i \in 1..N : e.r[i] \in {0, 1}
             /\ \A i \in found : /\ e.r[N + i] \in FullIdx(pre)
                                  /\ accE(i, pre.data[e.r[N + i]]) /\ e.r[2 * N + i] = pre.data[e.r[N + i]][1]
             /\ \A i \in (1..N) \ found : e.r[N + i] = -1 /\ WithHash({x \in A : accE(i, x)}, h0[e.ks[i]]) = {}
             /\ \A i, j \in found : i # j => e.r[N + i] # e.r[N + j])

\* ---- serde (C20): deserialize = bounded reservation, then sequential inserts (last value wins); error => drop
Pairs(ks) == [i \in 1..(Len(ks) \div 2) |-> <<ks[2 * i - 1], ks[2 * i]>>]
Singles(ks) == [i \in 1..Len(ks) |-> <<ks[i], 0>>]
LastWins(ps) == {ps[i] : i \in {q \in 1..Len(ps) : \A r \in (q + 1)..Len(ps) : ps[r][1] # ps[q][1]}}
CautiousBuckets == 8192          \* capacity_to_buckets(4096): the reservation made before any element is read

---------------------------------------------------------------------------
Init == /\ l = 1
        /\ hd = [W |-> W]
        /\ tb = <<>> /\ tx = <<>> /\ ab = <<>>
        /\ lk = [ids |-> {}, blocks |-> <<>>, dv |-> {}]
        /\ TLCSet(42, 0) /\ TLCSet(43, <<>>) /\ TLCSet(44, 0) /\ TLCSet(45, <<>>) /\ TLCSet(46, 0) /\ TLCSet(47, <<>>) /\ TLCSet(48, 0) /\ TLCSet(49, 0)
        /\ ok = TRUE

Fail(line, what) == IF TLCGet(43) = <<>> THEN TLCSet(43, <<line, what>>) ELSE TRUE

ResetStep(e) ==
  /\ IF e.W # W THEN Fail(l, {"group width of the trace differs from the specification's W"}) ELSE TRUE
  /\ hd' = e
  /\ tb' = [i \in 1..e.nt |-> Singleton(e.es)]
  /\ tx' = [i \in 1..e.nt |-> [lv |-> FALSE, pl |-> 0, len |-> 0, cap |-> 0, asz |-> 0, mc |-> 0]]
  /\ ab' = [i \in 1..e.nt |-> {}]
  /\ lk' = [ids |-> {}, blocks |-> <<>>, dv |-> {}]
  /\ ok' = TRUE

EndStep(e) ==
  LET bad == (IF e.errs # <<>> THEN {<<"observer errors (allocator / registry): " \o e.errs[1], {"C02", "C03", "C04", "C05"}>>} ELSE {})
             \cup (IF hd.tr = 1 /\ e.nl # Cardinality(lk.ids) THEN {<<"elements leaked or still live at the end", {"C03", "C04", "C05"}>>} ELSE {})
             \cup (IF e.nb # Len(lk.blocks) THEN {<<"allocator blocks leaked at the end", {"C03", "C04", "C05"}>>} ELSE {})
      mine == {b \in bad : PROP = "ALL" \/ PROP \in b[2]}
  IN /\ IF mine # {} THEN Fail(l, {b[1] : b \in mine}) ELSE TRUE
     /\ IF bad # {} /\ mine = {} THEN TLCSet(46, TLCGet(46) + 1) ELSE TRUE
     /\ UNCHANGED <<hd, tb, tx, ab, lk, ok>>

FaultClasses == {"hash", "eq", "clone", "drop", "bh_clone"}
IdsOfY(e) == Ids(UNION {{y[2], y[4]} : y \in {z \in SeqToSet(e.y) : Len(z) >= 4 /\ z[1] # -7 /\ z[1] # -9}})
KI(S) == {<<x[1], x[2]>> : x \in S}
RECURSIVE SeqMinus(_, _)
SeqMinus(s, r) ==   \* bag difference of sequences
  IF r = <<>> THEN s
  ELSE LET i == CHOOSE i \in 1..Len(s) : s[i] = Head(r)
       IN SeqMinus(SubSeq(s, 1, i - 1) \o SubSeq(s, i + 1, Len(s)), Tail(r))
IsSubBag(r, s) == \A x \in SeqToSet(r) : Count(r, x) <= Count(s, x)


InsertLike == {"insert", "try_insert", "e_or_insert", "e_or_insert_with", "e_or_insert_with_key", "e_and_modify_or_insert",
               "e_insert", "e_insert_entry", "er_or_insert", "er_insert", "er_and_modify_or_insert", "er_insert_entry",
               "rc_or_insert", "rc_insert", "rc_insert_entry", "re_from_key_or_insert", "re_hashed_or_insert",
               "re_from_hash_or_insert", "re_insert_hashed_nocheck", "re_insert_with_hasher", "insert_unique_unchecked"}

OpStep(e) ==
  LET t == e.t
      u == e.u
      pre == tb[t]
      prex == tx[t]
      A == ab[t]
      A2 == IF u >= 1 /\ u <= Len(ab) THEN ab[u] ELSE {}
      obsT == [i \in 1..hd.nt |-> ObsTable(e.s[i], hd.es)]
      obsX == [i \in 1..hd.nt |-> ObsX(e.s[i])]
      ph == PlanFn(hd, prex.pl)
      \* HashTable: the hash the caller supplied (plan e.n of the class; untracked elements always use plan 0)
      hq == IF hd.kind = "table" /\ e.k >= 0 THEN PlanFn(hd, IF hd.tr = 1 /\ e.n = 1 THEN 1 ELSE 0)[e.k] ELSE [pos |-> 0, tag |-> 0]
      \* ---------- abstract step
      chkPanic == e.pn \in {"", "index", "dup", "noteq"} \/ (e.pn = "consumer" /\ e.op \in {"par_drain", "into_par_iter"} /\ e.n = 2)
      \* (an unexpected panic leaves the result fields unset: the abstract step is not evaluated on them)
      absr ==
        IF ~chkPanic THEN AR(A, {}, FALSE) ELSE
        CASE e.op = "iter" -> AR(A, {}, IterOK(e, pre, A))
          [] e.op \in {"get_many_mut", "get_many_kv_mut"} -> GetManyAbs(e, A, obsT[t])
          [] e.op = "clone" -> AR(A, AllIds(A2), e.pn = "")              \* table u is replaced by a clone of t
          [] e.op = "clone_from" -> AR(A, AllIds(A), e.pn = "")          \* contents of t replaced (checked below)
          [] e.op = "serde_roundtrip" -> AR(A, AllIds(A2), e.pn = "")
          [] e.op \in {"serde_de", "serde_de_in_place"} ->
               LET ps == IF hd.kind = "map" THEN Pairs(e.ks) ELSE Singles(e.ks)
                   n == Len(ps)
                   okExp == e.j < 0 \/ e.j > n
                   N == Elems(obsT[t])
                   seen == IF okExp THEN ps ELSE SubSeq(ps, 1, e.j)       \* items consumed before the error
                   replaced == e.op = "serde_de_in_place" \/ okExp        \* the old contents are gone
               IN AR(A, {},
                     /\ e.pn = "" /\ e.r[1] = (IF okExp THEN 1 ELSE 0)
                     \* contents: last value wins; a failed `deserialize` leaves the target untouched
                     /\ (IF replaced THEN KV(N) = LastWins(seen) /\ Cardinality(N) = Cardinality(LastWins(seen))
                                           \* `deserialize` builds a collection with the Default hasher (plan 0); `deserialize_in_place` keeps its own
                                           /\ LET pl == IF e.op = "serde_de_in_place" THEN prex.pl ELSE 0
                                              IN \A z \in N : z[5] = PlanFn(hd, pl)[z[1]].pos /\ z[6] = PlanFn(hd, pl)[z[1]].tag
                                           /\ (hd.tr = 1 => AllIds(N) \cap (AllIds(A) \cup AllIds(A2) \cup lk.ids) = {} /\ Cardinality(AllIds(N)) = IdCount(N))
                         ELSE N = A)
                     \* ledger: the replaced contents are dropped, nothing that is stored is dropped
                     /\ (hd.tr = 1 => /\ NoDupSeq(e.dr) /\ SeqToSet(e.dr) \cap AllIds(N) = {}
                                      /\ (IF replaced THEN AllIds(A) \subseteq SeqToSet(e.dr) ELSE SeqToSet(e.dr) \cap AllIds(A) = {}))
                     \* a lying size hint cannot force over-allocation
                     /\ e.r[3] <= LayoutSize(hd.es, hd.ea, CautiousBuckets) /\ e.r[2] <= Cap(CautiousBuckets - 1))
          [] e.op = "or_assign" -> AR(A, {}, e.pn = "")
          [] e.op = "xor_assign" -> AR(A, {z[2] : z \in {w \in A : w[1] \in Cls(A2)}}, e.pn = "")
          [] e.op \in OpForms -> AR(A, AllIds(ab[3]), e.pn = "")
          \* FromIterator: a fresh collection (Default hasher = plan 0) that received the items in order; the old one is dropped
          [] e.op = "from_iter" ->
               LET x == IF hd.kind = "set" THEN AbsSetOp([e EXCEPT !.op = "extend"], {}, {}, PlanFn(hd, 0))
                        ELSE AbsMapOp([e EXCEPT !.op = "extend"], {}, {}, PlanFn(hd, 0))
               IN AR(x.A, x.dr \cup AllIds(A), x.ok /\ obsX[t].pl = 0)
          [] hd.kind = "set" -> AbsSetOp(e, A, A2, ph)
          [] e.op = "t_get_many_mut" -> TGetManyAbs(e, A, pre, PlanFn(hd, 0), hd.tr = 1)
          [] e.op = "t_entry_insert" /\ e.r[1] = 1 ->
               LET N == Elems(obsT[t])
                   ne == MkElem(e.k, e.id, e.v, 0, hq)
                   X == {x \in CandsH(A, e.k, hq) : N = (A \ {x}) \cup {ne}}
               IN IF X = {} THEN AR(A, {}, FALSE)
                  ELSE LET x == CHOOSE x \in X : TRUE IN AR(N, {x[2]}, e.pn = "" /\ e.r = <<1, e.id, e.v>>)
          [] hd.kind = "table" -> AbsTableOp(e, A, pre, hq)
          [] OTHER -> AbsMapOp(e, A, A2, ph)
      newAb == [i \in 1..hd.nt |->
                  IF e.op \in {"clone", "serde_roundtrip"} /\ i = u THEN Elems(obsT[u])
                  ELSE IF e.op \in {"serde_de", "serde_de_in_place"} /\ i = t THEN Elems(obsT[t])
                  ELSE IF e.op \in {"clone_from", "or_assign", "xor_assign"} /\ i = t THEN Elems(obsT[t])
                  ELSE IF e.op \in OpForms /\ i = 3 THEN Elems(obsT[3])
                  ELSE IF e.op \in OpForms THEN ab[i]
                  ELSE IF i = t THEN absr.A ELSE ab[i]]
      known == AllIds(A) \cup AllIds(A2) \cup lk.ids \cup (IF hd.nt >= 3 THEN AllIds(ab[3]) ELSE {})
      \* N = new content, K = elements that must survive unchanged, C = classes N must have; the rest are fresh clones
      FreshOK(N, K, C) ==
        /\ K \subseteq N /\ Cls(N) = C /\ Cardinality(N) = Cardinality(C)
        /\ \A z \in N \ K : z[5] = ph[z[1]].pos /\ z[6] = ph[z[1]].tag
        /\ (hd.tr = 1 => /\ {z[2] : z \in N \ K} \cap known = {}
                         /\ Cardinality({z[2] : z \in N \ K}) = Cardinality(N \ K))
      algOK ==
        CASE e.op = "or_assign" -> FreshOK(Elems(obsT[t]), A, Cls(A) \cup Cls(A2))
          [] e.op = "xor_assign" -> FreshOK(Elems(obsT[t]), {z \in A : z[1] \notin Cls(A2)}, (Cls(A) \ Cls(A2)) \cup (Cls(A2) \ Cls(A)))
          [] e.op \in OpForms ->
               LET C == CASE e.op = "op_or" -> Cls(A) \cup Cls(A2)
                          [] e.op = "op_and" -> Cls(A) \cap Cls(A2)
                          [] e.op = "op_xor" -> (Cls(A) \ Cls(A2)) \cup (Cls(A2) \ Cls(A))
                          [] OTHER -> Cls(A) \ Cls(A2)
                   N == Elems(obsT[3])
               IN /\ Cls(N) = C /\ Cardinality(N) = Cardinality(C)
                  /\ (hd.tr = 1 => {z[2] : z \in N} \cap known = {} /\ Cardinality({z[2] : z \in N}) = Cardinality(N))
                  /\ obsX[3].lv
          [] OTHER -> TRUE
      cloneOK ==
        IF e.op = "serde_roundtrip" THEN
             LET N == Elems(obsT[u])
             IN /\ KV(N) = KV(A) /\ Cardinality(N) = Cardinality(A)
                /\ \A z \in N : z[5] = PlanFn(hd, 0)[z[1]].pos /\ z[6] = PlanFn(hd, 0)[z[1]].tag
                /\ (hd.tr = 1 => AllIds(N) \cap (AllIds(A) \cup AllIds(A2) \cup lk.ids) = {} /\ Cardinality(AllIds(N)) = IdCount(N))
                /\ obsX[u].lv /\ obsX[u].pl = 0
        ELSE IF e.op = "clone" THEN
             /\ KVH(Elems(obsT[u])) = KVH(A) /\ Cardinality(Elems(obsT[u])) = Cardinality(A)
             /\ (hd.tr = 1 => /\ AllIds(Elems(obsT[u])) \cap (AllIds(A) \cup AllIds(A2) \cup lk.ids) = {}
                              /\ Cardinality(AllIds(Elems(obsT[u]))) = IdCount(Elems(obsT[u])))
             /\ obsX[u].lv /\ obsX[u].pl = prex.pl
        ELSE IF e.op = "clone_from" THEN
             /\ KVH(Elems(obsT[t])) = KVH(A2) /\ Cardinality(Elems(obsT[t])) = Cardinality(A2)
             /\ (hd.tr = 1 => /\ AllIds(Elems(obsT[t])) \cap (AllIds(A) \cup AllIds(A2) \cup lk.ids) = {}
                              /\ Cardinality(AllIds(Elems(obsT[t]))) = IdCount(Elems(obsT[t])))
             /\ obsX[t].pl = tx[u].pl
        ELSE TRUE
      lvAfter(i) == IF e.op = "drop" /\ i = t THEN FALSE
                    ELSE IF e.op \in {"new", "with_capacity"} /\ i = t THEN TRUE
                    ELSE IF e.op \in {"clone", "serde_roundtrip"} /\ i = u THEN TRUE
                    ELSE IF e.op \in OpForms /\ i = 3 THEN TRUE ELSE tx[i].lv
      \* ---------- leaks (mem::forget of a Drain): elements not yielded and the block stay allocated forever
      forgot == e.op = "drain" /\ e.n = 1
      lk1 == IF forgot
             THEN [lk EXCEPT !.ids = lk.ids \cup (AllIds(A) \ Ids({y[2] : y \in SeqToSet(e.y)} \cup {y[4] : y \in SeqToSet(e.y)})),
                             !.blocks = IF pre.mask # 0 THEN Append(lk.blocks, BlockOf(pre, hd)) ELSE lk.blocks]
             ELSE lk
      \* tables whose contents differ from what the reference model holds (they stay marked until their contents are replaced)
      Replaced(i) == \/ (e.op \in {"clone", "serde_roundtrip"} /\ i = u)
                     \/ (e.op \in {"serde_de", "serde_de_in_place", "clone_from", "or_assign", "xor_assign", "new", "with_capacity", "drop", "clear", "from_iter"} /\ i = t)
                     \/ (e.op \in OpForms /\ i = 3)
      lk2 == [lk1 EXCEPT !.dv = {i \in 1..hd.nt : lvAfter(i) /\ (Elems(obsT[i]) # newAb[i] \/ (i \in lk.dv /\ ~Replaced(i)))}]
      \* ---------- PROPERTY checks
      chkRet == absr.ok /\ cloneOK /\ algOK
      chkAbs == \A i \in 1..hd.nt : lvAfter(i) => Elems(obsT[i]) = newAb[i]
      chkLive == \A i \in 1..hd.nt : obsX[i].lv = lvAfter(i)
      chkDrops == (hd.tr = 1 /\ e.op \notin {"serde_de", "serde_de_in_place"}) => (NoDupSeq(e.dr) /\ SeqToSet(e.dr) = absr.dr)
      \* every object the LIBRARY created during the call (clones, keys made by Into / Deserialize) is stored or was dropped
      libCreated == Ids(SeqToSet(e.nw)) \ (Ids({e.id, e.vid}) \cup (IF e.op \in {"extend", "par_extend", "from_iter"} THEN IdsOfY(e) ELSE {}))
      chkFresh == (hd.tr = 1) => libCreated \subseteq (UNION {AllIds(Elems(obsT[i])) : i \in {j \in 1..hd.nt : lvAfter(j)}}) \cup SeqToSet(e.dr)
      chkLen == \A i \in 1..hd.nt : lvAfter(i) =>
                  /\ obsX[i].len = Cardinality(newAb[i]) /\ obsX[i].cap >= obsX[i].len
      \* capacity() never promises more than the table can take without growing (C08: "inserting up to capacity() - len()
      \* absent keys performs no allocation"): it is bounded by the stored elements plus the growth budget
      chkCapReal == \A i \in 1..hd.nt : lvAfter(i) => obsX[i].cap <= obsT[i].items + obsT[i].gl
      \* allocation_size() is exactly what is held from the allocator, every live table holds one block with an alignment
      \* sufficient for the elements and an aligned group scan and room for all elements + control bytes + mirrored group
      \* (the exact size formula of the current layout policy is a STRICT fact only)
      heldSizes == [i \in 1..Len(e.bl) |-> e.bl[i][1]]
      leakedSizes == [i \in 1..Len(lk2.blocks) |-> lk2.blocks[i][1]]
      RECURSIVE AszSeq(_)
      AszSeq(i) == IF i > hd.nt THEN <<>> ELSE (IF lvAfter(i) /\ obsX[i].asz > 0 THEN <<obsX[i].asz>> ELSE <<>>) \o AszSeq(i + 1)
      chkAlloc == /\ BagEq(heldSizes, leakedSizes \o AszSeq(1))
                  /\ \A i \in 1..Len(e.bl) : e.bl[i][2] >= hd.ea /\ e.bl[i][2] >= W /\ IsPow2(e.bl[i][2])
                  /\ \A i \in 1..hd.nt : lvAfter(i) =>
                        /\ (obsX[i].asz = 0) = (obsT[i].mask = 0)
                        /\ (obsT[i].mask # 0 => obsX[i].asz >= hd.es * (obsT[i].mask + 1) + (obsT[i].mask + 1) + W)
      allocStrict == /\ BagEq(e.bl, lk2.blocks \o LiveBlocks(obsT, obsX, hd, 1))
                     /\ \A i \in 1..hd.nt : lvAfter(i) =>
                           obsX[i].asz = (IF obsT[i].mask = 0 THEN 0 ELSE LayoutSize(hd.es, hd.ea, obsT[i].mask + 1))
      \* C08: an absent key inserted while len < capacity performs no allocation
      chkNoAlloc == (e.op \in InsertLike /\ ~Has(A, e.k) /\ prex.len < prex.cap) => e.al = <<>>
      chkReserve ==
        IF ~chkPanic THEN TRUE ELSE
        CASE e.op = "reserve" -> obsX[t].cap >= obsX[t].len + e.n
          [] e.op = "with_capacity" -> obsX[t].cap >= e.n
          [] e.op = "try_reserve" ->
               /\ (e.n \in {-1, -2, -3, -6} => e.r[1] = TryClass(e.n, e.j, hd.es))
               \* a representable request fails only because the allocator refused it
               /\ (e.n >= 0 /\ e.r[1] # 0 => e.r[1] = 2 /\ \E i \in 1..Len(e.al) : e.al[i][1] = 0)
               /\ (IF e.r[1] = 0 THEN (e.n >= 0 => obsX[t].cap >= obsX[t].len + e.n)
                   ELSE /\ obsT[t] = pre /\ SameX(obsX[t], prex) /\ e.dr = <<>>        \* error: nothing changed, nothing leaked
                        /\ \A i \in 1..Len(e.al) : e.al[i][1] = 0                \* only the refused request
                        /\ (e.r[1] = 2 => \E i \in 1..Len(e.al) : e.al[i][2] = e.r[2] /\ e.al[i][3] = e.r[3]))
          [] e.op \in {"shrink_to", "shrink_to_fit", "t_shrink_to_fit"} ->
               LET m == IF e.op = "shrink_to" THEN e.n ELSE IF e.op = "t_shrink_to_fit" THEN obsX[t].len ELSE 0
                   lo == IF m < prex.cap THEN m ELSE prex.cap
                   need == IF obsX[t].len > m THEN obsX[t].len ELSE m
               IN /\ obsX[t].cap >= (IF obsX[t].len > lo THEN obsX[t].len ELSE lo)
                  /\ obsX[t].asz <= prex.asz
                  /\ (obsX[t].len = 0 /\ m = 0) => obsX[t].asz = 0
                  \* e.r[1] = allocation_size of a fresh with_capacity(max(len, m)), measured on the real code
                  /\ (need > 0 /\ Len(e.r) >= 1 => obsX[t].asz <= e.r[1])
          \* ... and the emptied collection is as usable as it ever was with this allocation (C10: "still usable with its allocation")
          \* (clear() of an EMPTY collection returns at once - src/raw/mod.rs:851 - and keeps its tombstones: nothing to demand then)
          [] e.op = "clear" -> obsX[t].asz = prex.asz /\ e.al = <<>> /\ (prex.len > 0 => obsX[t].cap >= prex.mc)
          [] e.op = "drain" -> e.al = <<>> /\ (e.n \in {0, 2} => obsX[t].asz = prex.asz /\ obsX[t].cap >= prex.mc)
          [] e.op = "new" -> obsX[t].asz = 0
          [] OTHER -> TRUE
      \* C13: under insert/remove churn with at most nk live elements and no explicit reservation the allocation stays
      \* within a fixed multiple (deliberately generous: 16x) of the space needed for nk elements
      chkChurn == (hd.churn = 1 /\ hd.nk > 0) =>
                    \A i \in 1..hd.nt : lvAfter(i) => obsX[i].asz <= 16 * LayoutSize(hd.es, hd.ea, CapToBuckets(hd.nk, hd.es))
      opp == OpProp(e.op, hd.kind)
      \* (a table whose observed state did not change was checked when it last changed)
      invd == UNION {InvDiag(obsT[i], FALSE, hd.kind # "table") : i \in {j \in 1..hd.nt : lvAfter(j) /\ obsT[j] # tb[j]}}
      invStruct == invd \cap {"I1 shape", "I2 mirror bytes", "I3 items = number of FULL bytes", "I4 an EMPTY bucket exists",
                              "I5 growth_left accounting", "I9 FULL <=> slot holds an element"}
      invFind == invd \ invStruct
      bad == (IF ~chkPanic THEN {<<"unexpected panic inside a safe call: " \o e.pn, SafetyProps \cup opp>>} ELSE {})
             \cup (IF ~chkLive THEN {<<"liveness of tables", SafetyProps>>} ELSE {})
             \* (the count-terminated iterators are exact iff items = #FULL and FULL <=> slot initialised: such a state violates C09 as it stands)
             \cup {<<"structural invariant violated on the observed state: " \o m,
                     SafetyProps \cup opp \cup {"C08"} \cup (IF m \in IterInv THEN {"C09"} ELSE {})
                       \* (C17: the usable capacity stays below the bucket count "so that one slot always stays empty")
                       \cup (IF m \in {"I4 an EMPTY bucket exists", "I5 growth_left accounting"} THEN {"C17"} ELSE {})>> : m \in invStruct}
             \cup {<<"findability invariant violated on the observed state: " \o m, opp \cup KindProp(hd.kind)>> : m \in invFind}
             \cup (IF ~chkRet THEN {<<"result differs from the abstract specification", opp>>} ELSE {})
             \* two live &mut to one entry out of a safe call is undefined behaviour by itself: evidence against C02 as well
             \cup (IF e.op \in {"get_many_mut", "get_many_kv_mut", "t_get_many_mut"} /\ e.pn = "" /\ Len(e.r) = 2 * Len(e.ks)
                     /\ (\E i, j \in 1..Len(e.ks) : i # j /\ e.r[i] = 1 /\ e.r[j] = 1 /\ e.r[Len(e.ks) + i] = e.r[Len(e.ks) + j])
                   THEN {<<"get_many_mut returned two mutable references to the same entry", {"C02", "C15"} \cup opp>>} ELSE {})
             \cup (IF ~chkAbs THEN {<<"contents differ from the abstract specification", opp>>} ELSE {})
             \cup (IF t \in lk.dv /\ e.op \in {"iter", "into_iter", "drain"}
                   THEN {<<"iterates a table whose contents had diverged from the reference model at an earlier operation (the elements it yields are not the stored ones)", {"C09"}>>} ELSE {})
             \cup (IF ~chkDrops THEN {<<"dropped elements differ from the abstract specification",
                                        {"C03", "C04"} \cup (IF e.op \in ParOps THEN {"C19"} ELSE {}) \cup (IF e.op \in {"serde_de", "serde_de_in_place"} THEN {"C20"} ELSE {})
                                                        \cup (IF e.op \in {"clone", "clone_from"} THEN {"C11"} ELSE {})>>} ELSE {})
             \cup (IF ~chkFresh THEN {<<"an object created during the call is neither stored nor dropped (leak)", {"C03", "C04"} \cup opp>>} ELSE {})
             \cup (IF ~chkLen THEN {<<"len()/capacity() contract", {"C08"} \cup opp>>} ELSE {})
             \cup (IF ~chkCapReal THEN {<<"capacity() promises more than the stored elements plus the growth budget", {"C08", "C17"}>>} ELSE {})
             \cup (IF ~chkAlloc THEN {<<"allocator ledger / allocation_size (size or alignment of a live block differs from the table layout)",
                                       {"C02", "C03", "C08", "C13", "C17"} \cup (IF e.op = "drain" THEN {"C10"} ELSE {})
                                                                          \cup (IF e.op = "try_reserve" THEN {"C12"} ELSE {})>>} ELSE {})
             \cup (IF ~chkChurn THEN {<<"allocation grew beyond 16x the space needed for the live-size bound under insert/remove churn", {"C13"}>>} ELSE {})
             \cup (IF ~chkNoAlloc THEN {<<"allocation although len < capacity", {"C08"}>>} ELSE {})
             \cup (IF ~chkReserve THEN {<<"capacity contract of " \o e.op, {"C08"} \cup (IF e.op = "try_reserve" THEN {"C12"} ELSE {})
                                                                              \cup (IF e.op = "drain" THEN {"C10"} ELSE {})>>} ELSE {})
      mine == {b \in bad : PROP = "ALL" \/ PROP \in b[2]}
      sane == invStruct = {} /\ invFind = {}
      \* ---------- STRICT (drift only)
      exp ==
        CASE e.op = "drop" -> pre
          [] e.op = "clone" -> pre
          [] e.op = "clone_from" -> NoIds(CloneFrom(pre, tb[u], 0).t)
          [] e.op \in {"get_many_mut", "get_many_kv_mut"} ->
               [pre EXCEPT !.data = [i \in 0..pre.mask |-> IF pre.data[i] \in A /\ pre.data[i] \notin absr.A
                                                          THEN CHOOSE y \in absr.A : y[1] = pre.data[i][1] ELSE pre.data[i]]]
          [] hd.kind = "set" -> SetOp(e, pre, IF u >= 1 /\ u <= Len(tb) THEN tb[u] ELSE pre, ph, LawfulEnv).t
          [] e.op = "t_get_many_mut" ->
               IF e.pn # "" \/ hd.tr = 0 THEN pre
               ELSE LET N == Len(e.ks)
                    IN [pre EXCEPT !.data = [i \in 0..pre.mask |->
                          IF \E q \in 1..N : e.r[q] = 1 /\ e.r[N + q] = i
                          THEN SetV(pre.data[i], e.v + ((CHOOSE q \in 1..N : e.r[q] = 1 /\ e.r[N + q] = i) - 1)) ELSE pre.data[i]]]
          [] hd.kind = "table" -> TableOp(e, pre, hq, LawfulEnv).t
          [] OTHER -> MapOp(e, pre, ph, LawfulEnv).t
      strictOK == allocStrict /\ (e.op = "try_reserve" /\ e.n \in {-4, -5} => e.r[1] = TryClass(e.n, e.j, hd.es)) /\
        CASE e.op = "drop" -> TRUE
          [] e.op = "clone" -> NoIds(obsT[u]) = NoIds(CloneTable(pre, 0).t) /\ obsT[t] = pre
          [] e.op = "clone_from" -> NoIds(obsT[t]) = exp
          [] e.op = "iter" -> obsT[t] = pre /\ IterStrict(e)
          [] e.op \in OpForms \cup {"par_extend", "serde_roundtrip", "serde_de", "serde_de_in_place", "from_iter"} -> TRUE    \* (chunking of the collected input is schedule-dependent)
          [] e.op \in {"or_assign", "xor_assign"} -> NoIds(obsT[t]) = NoIds(exp)
          [] OTHER -> obsT[t] = exp
  IN /\ IF mine # {} THEN Fail(l, {b[1] : b \in mine}) ELSE TRUE
     /\ IF bad # {} /\ mine = {} THEN TLCSet(46, TLCGet(46) + 1) /\ (IF TLCGet(47) = <<>> THEN TLCSet(47, <<l, e.op, {b[1] : b \in bad}>>) ELSE TRUE) ELSE TRUE
     \* STRICT is evaluated only on states that passed the invariant (operators are partial outside it)
     /\ IF bad = {} /\ ok /\ ~strictOK THEN TLCSet(42, TLCGet(42) + 1) /\ (IF TLCGet(45) = <<>> THEN TLCSet(45, <<l, e.op>>) ELSE TRUE) ELSE TRUE
     /\ TLCSet(44, TLCGet(44) + 1)
     /\ tb' = obsT /\ tx' = WithMc(tx, obsX) /\ lk' = lk2
     \* after a foreign failure the abstract state follows the observation
     /\ ab' = IF bad = {} THEN newAb ELSE [i \in 1..hd.nt |-> IF obsX[i].lv THEN Elems(obsT[i]) ELSE {}]
     /\ ok' = sane
     /\ UNCHANGED hd

(***************************************************************************)
(* A call during which an injected callback panic unwound (C04).  The       *)
(* abstract outcome is a SET of allowed states: the collection must be      *)
(* valid, every element it held (or was handed) is still present, was       *)
(* dropped exactly once, or was moved out to the caller - a leak is allowed *)
(* only when the panic came out of a destructor - and a hasher panic while  *)
(* the table is being grown into a new allocation leaves it unchanged.      *)
(***************************************************************************)
FaultStep(e) ==
  LET t == e.t
      u == e.u
      pre == tb[t]
      A == ab[t]
      obsT == [i \in 1..hd.nt |-> ObsTable(e.s[i], hd.es)]
      obsX == [i \in 1..hd.nt |-> ObsX(e.s[i])]
      live == {i \in 1..hd.nt : obsX[i].lv}
      ph == PlanFn(hd, tx[t].pl)
      allBefore == UNION {AllIds(ab[i]) : i \in 1..hd.nt} \cup Ids({e.id, e.vid})
                   \cup (IF e.op \in {"extend", "from_iter"} THEN IdsOfY(e) ELSE {}) \cup Ids(SeqToSet(e.nw))
      present == UNION {AllIds(Elems(obsT[i])) : i \in live}
      dropped == SeqToSet(e.dr)
      movedOut == IF e.op \in {"drain", "extract_if", "into_iter", "t_extract_if"} THEN IdsOfY(e) ELSE {}
      unacc == allBefore \ (present \cup dropped \cup movedOut)        \* neither present nor dropped nor moved out = leaked
      invd == UNION {InvDiag(obsT[i], FALSE, hd.kind # "table") : i \in {j \in live : obsT[j] # tb[j]}}
      expectedLive == lk.blocks \o LiveBlocks(obsT, obsX, hd, 1)
      extra == IF IsSubBag(expectedLive, e.bl) THEN SeqMinus(e.bl, expectedLive) ELSE <<>>
      grew == \E i \in 1..Len(e.al) : e.al[i][1] = 1
      touched == {t} \cup (IF e.op \in {"clone"} THEN {u} ELSE {})
      bad ==
           {<<"after a callback panic: " \o m, {"C04", "C02"} \cup (IF m \in IterInv THEN {"C09"} ELSE {})>> : m \in invd}
        \cup (IF \E i \in live : obsX[i].len # Cardinality(Elems(obsT[i])) \/ obsX[i].cap < obsX[i].len
             THEN {<<"after a callback panic: len() differs from the number of stored elements", {"C04"}>>} ELSE {})
        \cup (IF hd.tr = 1 /\ (~NoDupSeq(e.dr) \/ dropped \cap present # {})
             THEN {<<"after a callback panic: an element was dropped twice or dropped while still stored", {"C04", "C03", "C02"}>>} ELSE {})
        \cup (IF hd.tr = 1 /\ unacc # {} /\ e.pn # "drop"
             THEN {<<"after a callback panic: an element is neither stored nor dropped (leak without a destructor panic)",
                     {"C04", "C03"} \cup (IF e.op \in {"clone", "clone_from"} THEN {"C11"} ELSE {})>>} ELSE {})
        \cup (IF \E i \in live \ touched : i <= Len(ab) /\ tx[i].lv /\ Elems(obsT[i]) # ab[i]
             THEN {<<"after a callback panic: a collection not involved in the call changed", {"C04", "C11"}>>} ELSE {})
        \cup (IF t \in live /\ e.op \notin {"clone_from", "xor_assign", "or_assign", "new", "with_capacity"}
                /\ ~(KI(Elems(obsT[t])) \subseteq KI(A) \cup {<<e.k, e.id>>} \cup {<<y[1], y[2]>> : y \in SeqToSet(e.y)})
             THEN {<<"after a callback panic: the collection holds an element it never contained", {"C04"}>>} ELSE {})
        \cup (IF e.pn = "hash" /\ grew /\ t \in live /\ e.op \notin {"clone_from", "extend", "from_iter"} /\ KI(Elems(obsT[t])) # KI(A)
             THEN {<<"hasher panic while growing into a new allocation changed the contents", {"C04"}>>} ELSE {})
        \cup (IF ~IsSubBag(expectedLive, e.bl) THEN {<<"after a callback panic: a block of a live table is missing from the allocator ledger", {"C04", "C03", "C02"}>>} ELSE {})
        \cup (IF extra # <<>> /\ e.pn # "drop" THEN {<<"after a callback panic: an allocator block leaked without a destructor panic", {"C04", "C03"}>>} ELSE {})
        \cup (IF e.pn # e.fa THEN {<<"a different panic than the injected one: " \o e.pn, {"C04", "C02"}>>} ELSE {})
      sel == IF e.op \in {"retain", "extract_if", "t_extract_if", "drain"} THEN {"C10"} ELSE {}
      mine == {b \in bad : PROP = "ALL" \/ PROP \in (b[2] \cup sel)}
      \* STRICT: the fault-aware concrete operator reproduces the post-unwind state (hasher panics of map operations)
      strictKnown == e.pn = "hash" /\ hd.kind = "map" /\ e.op \notin {"clone", "clone_from", "eq", "get_many_mut", "get_many_kv_mut", "iter", "drop", "from_iter"}
      expR == MapOp(e, pre, ph, [pa |-> e.fk, hs |-> <<>>])
      \* clone_from whose element Clone panics: the inner guard drops the clones made so far, the outer guard leaves the
      \* target empty with the SOURCE's bucket count (clear_no_drop after the reallocation); clone(): the target is untouched
      cloneStrict == (e.pn = "clone" /\ e.op = "clone_from" /\ t \in live /\ u >= 1 /\ u <= Len(tb) /\ tb[u].mask # 0)
                       \* (HashTable does not override clone_from: it is `*self = source.clone()`, a panic leaves the target untouched)
                       => obsT[t] = (IF hd.kind = "table" THEN pre ELSE CloneFrom(pre, tb[u], 1).t)
      \* HashTable: the re-hash closure panics at its fk-th invocation (the caller-supplied hash is not an invocation)
      hq == IF hd.kind = "table" /\ e.k >= 0 THEN PlanFn(hd, IF hd.tr = 1 /\ e.n = 1 THEN 1 ELSE 0)[e.k] ELSE [pos |-> 0, tag |-> 0]
      strictKnownT == e.pn = "hash" /\ hd.kind = "table"
                      /\ e.op \in {"t_insert_unique", "t_entry_or_insert", "t_entry_insert", "t_entry_drop", "t_entry_and_modify", "t_shrink_to_fit", "reserve", "shrink_to"}
      expRT == TableOp(e, pre, hq, [pa |-> e.fk, hs |-> <<>>])
      strictKnownS == e.pn = "hash" /\ hd.kind = "set"
                      /\ e.op \in {"insert", "replace", "get_or_insert", "get_or_insert_with", "s_entry_insert", "s_entry_or_insert",
                                    "shrink_to_fit", "shrink_to", "reserve"}
      expRS == SetOp(e, pre, pre, ph, [pa |-> e.fk, hs |-> <<>>])
      strictOK == /\ (strictKnown => (expR.st = "unwound" /\ (t \in live => expR.t = obsT[t])))
                  /\ (strictKnownT => (expRT.st = "unwound" /\ (t \in live => expRT.t = obsT[t])))
                  /\ (strictKnownS => (expRS.st = "unwound" /\ (t \in live => expRS.t = obsT[t])))
                  /\ cloneStrict
  IN /\ IF mine # {} THEN Fail(l, {b[1] : b \in mine}) ELSE TRUE
     /\ IF bad # {} /\ mine = {} THEN TLCSet(46, TLCGet(46) + 1) /\ (IF TLCGet(47) = <<>> THEN TLCSet(47, <<l, e.op, {b[1] : b \in bad}>>) ELSE TRUE) ELSE TRUE
     /\ IF bad = {} /\ ok /\ ~strictOK THEN TLCSet(42, TLCGet(42) + 1) /\ (IF TLCGet(45) = <<>> THEN TLCSet(45, <<l, e.op>>) ELSE TRUE) ELSE TRUE
     /\ TLCSet(44, TLCGet(44) + 1) /\ TLCSet(48, TLCGet(48) + 1)
     /\ tb' = obsT /\ tx' = WithMc(tx, obsX)
     /\ ab' = [i \in 1..hd.nt |-> IF obsX[i].lv THEN Elems(obsT[i]) ELSE {}]
     /\ lk' = [lk EXCEPT !.ids = lk.ids \cup unacc, !.blocks = lk.blocks \o extra]
     /\ ok' = (invd = {})
     /\ UNCHANGED hd

(***************************************************************************)
(* A call made with an UNLAWFUL hasher / equality (C05): results are        *)
(* unspecified, but the safety subset of the invariant must hold, len()     *)
(* must equal the number of stored elements, and every element is either    *)
(* still stored, was dropped exactly once, or was moved out to the caller.  *)
(* STRICT: the concrete operators, fed with the logged hash answers,        *)
(* reproduce the observed state (hash chaos with a lawful Eq only).         *)
(***************************************************************************)
SafeDiag(t) ==
  IF ~I1(t) THEN {"I1 shape"} ELSE
  (IF I2(t) THEN {} ELSE {"I2 mirror bytes"}) \cup (IF I3(t) THEN {} ELSE {"I3 items = number of FULL bytes"})
  \cup (IF I4(t) THEN {} ELSE {"I4 an EMPTY bucket exists"}) \cup (IF I5(t, FALSE) THEN {} ELSE {"I5 growth_left accounting"})
  \cup (IF I9(t) THEN {} ELSE {"I9 FULL <=> slot holds an element"})
\* elements as (identity) multiset: under an unlawful hasher equal keys may be stored several times
ChaosStep(e) ==
  LET t == e.t
      pre == tb[t]
      obsT == [i \in 1..hd.nt |-> ObsTable(e.s[i], hd.es)]
      obsX == [i \in 1..hd.nt |-> ObsX(e.s[i])]
      live == {i \in 1..hd.nt : obsX[i].lv}
      before == UNION {AllIds(ab[i]) : i \in 1..hd.nt} \cup Ids({e.id, e.vid})
                \cup (IF e.op \in {"extend", "from_iter"} THEN IdsOfY(e) ELSE {}) \cup Ids(SeqToSet(e.nw))
      present == UNION {AllIds(Elems(obsT[i])) : i \in live}
      dropped == SeqToSet(e.dr)
      movedOut == IF e.op \in {"drain", "extract_if", "into_iter", "t_extract_if"} THEN IdsOfY(e)     \* yielded to the caller
                  ELSE IF e.op \in {"remove", "remove_entry", "insert", "e_remove", "e_remove_entry", "rc_remove", "re_remove",
                                    "e_occ_insert", "e_into_key", "try_insert", "take", "replace", "t_remove", "t_remove_reinsert",
                                    "s_entry_remove", "s_entry_into_value"}
                  THEN before \ (present \cup dropped) ELSE {}      \* returned to the caller (dropped by the harness after the call)
      forgot == e.op = "drain" /\ e.n = 1
      unacc == before \ (present \cup dropped \cup movedOut)
      fresh == present \ before                                     \* clones
      sd == UNION {SafeDiag(obsT[i]) : i \in {j \in live : obsT[j] # tb[j]}}
      expectedLive == lk.blocks \o LiveBlocks(obsT, obsX, hd, 1)
      extra == IF IsSubBag(expectedLive, e.bl) THEN SeqMinus(e.bl, expectedLive) ELSE <<>>
      bad ==
           {<<"unlawful Hash/Eq: " \o m, {"C05", "C02"}>> : m \in sd}
        \cup (IF \E i \in live : obsX[i].len # obsT[i].items \/ obsX[i].len # Cardinality(FullIdx(obsT[i]))
             THEN {<<"unlawful Hash/Eq: len() differs from the number of stored elements", {"C05"}>>} ELSE {})
        \cup (IF hd.tr = 1 /\ (~NoDupSeq(e.dr) \/ dropped \cap present # {})
             THEN {<<"unlawful Hash/Eq: an element was dropped twice or dropped while still stored", {"C05", "C02"}>>} ELSE {})
        \cup (IF hd.tr = 1 /\ unacc # {} /\ ~forgot
             THEN {<<"unlawful Hash/Eq: an element is neither stored nor dropped", {"C05"}>>} ELSE {})
        \cup (IF ~IsSubBag(expectedLive, e.bl) \/ (extra # <<>> /\ ~forgot)
             THEN {<<"unlawful Hash/Eq: allocator ledger does not match the live tables", {"C05", "C02"}>>} ELSE {})
        \cup (IF e.pn \notin {"", "index", "dup", "noteq"} THEN {<<"unlawful Hash/Eq: unexpected panic " \o e.pn, {"C05", "C02"}>>} ELSE {})
        \* get_many_mut must never hand out two references to one entry, whatever Hash and Eq answer
        \cup (IF e.op \in {"get_many_mut", "get_many_kv_mut"} /\ e.pn = "" /\ Len(e.r) = 2 * Len(e.ks)
                /\ (\E i, j \in 1..Len(e.ks) : i # j /\ e.r[i] = 1 /\ e.r[j] = 1 /\ e.r[Len(e.ks) + i] = e.r[Len(e.ks) + j])
             THEN {<<"unlawful Hash/Eq: get_many_mut returned two mutable references to the same entry", {"C05", "C15", "C02"}>>} ELSE {})
      mine == {b \in bad : PROP = "ALL" \/ PROP \in b[2]}
      hs == [i \in 1..Len(e.hl) |-> [pos |-> e.hl[i][1], tag |-> e.hl[i][2]]]
      strictKnown == hd.kind = "map" /\ e.el = <<>> /\ e.pn = "" /\ Len(e.hl) >= 1
                     /\ e.op \in {"insert", "remove", "remove_entry", "e_or_insert", "e_insert", "e_remove", "rc_or_insert", "rc_insert",
                                   "reserve", "shrink_to", "shrink_to_fit", "try_insert", "e_replace_none", "rc_remove", "rc_vacant_drop"}
      expT == MapOp(e, pre, [k \in {e.k} |-> hs[1]], [pa |-> 0, hs |-> hs]).t
      strictOK == strictKnown => NoIdsH(expT) = NoIdsH(obsT[t])
  IN /\ IF mine # {} THEN Fail(l, {b[1] : b \in mine}) ELSE TRUE
     /\ IF bad # {} /\ mine = {} THEN TLCSet(46, TLCGet(46) + 1) /\ (IF TLCGet(47) = <<>> THEN TLCSet(47, <<l, e.op, {b[1] : b \in bad}>>) ELSE TRUE) ELSE TRUE
     /\ IF bad = {} /\ ok /\ ~strictOK THEN TLCSet(42, TLCGet(42) + 1) /\ (IF TLCGet(45) = <<>> THEN TLCSet(45, <<l, e.op>>) ELSE TRUE) ELSE TRUE
     /\ TLCSet(44, TLCGet(44) + 1) /\ IF strictKnown THEN TLCSet(49, TLCGet(49) + 1) ELSE TRUE
     /\ tb' = obsT /\ tx' = WithMc(tx, obsX)
     /\ ab' = [i \in 1..hd.nt |-> IF obsX[i].lv THEN Elems(obsT[i]) ELSE {}]
     /\ lk' = [lk EXCEPT !.ids = lk.ids \cup (IF forgot THEN unacc ELSE {}), !.blocks = lk.blocks \o extra]
     /\ ok' = (sd = {})
     /\ UNCHANGED hd

Next == /\ l <= Len(Rec)
        /\ TLCGet(43) = <<>>
        /\ l' = l + 1
        /\ LET e == Rec[l]
           IN CASE e.op = "reset" -> ResetStep(e)
                [] e.op = "end" -> EndStep(e)
                [] hd.mode = "chaos" -> ChaosStep(e)
                [] e.pn \in FaultClasses -> FaultStep(e)
                [] OTHER -> OpStep(e)

Spec == Init /\ [][Next]_tvars

SetToSeqStr(S) == IF S = {} THEN <<>> ELSE SetToSeq(S)
Accepted ==
  LET rej == TLCGet(43)
      consumed == TLCGet("stats").diameter = Len(Rec) + 1
      res == [steps |-> TLCGet(44), lines |-> Len(Rec), drift |-> TLCGet(42),
              firstdrift |-> IF TLCGet(45) = <<>> THEN <<>> ELSE <<ToString(TLCGet(45)[1]), TLCGet(45)[2]>>,
              foreign |-> TLCGet(46), faults |-> TLCGet(48), chaosstrict |-> TLCGet(49),
              firstforeign |-> IF TLCGet(47) = <<>> THEN <<>> ELSE <<ToString(TLCGet(47)[1]), TLCGet(47)[2]>> \o SetToSeqStr(TLCGet(47)[3]),
              rejected |-> IF rej # <<>> THEN 1 ELSE IF ~consumed THEN 2 ELSE 0,
              line |-> IF rej # <<>> THEN rej[1] ELSE TLCGet("stats").diameter,
              reasons |-> IF rej # <<>> THEN SetToSeqStr(rej[2]) ELSE IF ~consumed THEN <<"trace not consumed (specification has no step for this line)">> ELSE <<>>]
  IN /\ PrintT("HBVRESULT " \o ToJson(res))
     /\ rej = <<>> /\ consumed
=============================================================================
