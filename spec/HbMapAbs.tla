------------------------------ MODULE HbMapAbs ------------------------------
(***************************************************************************)
(* MapSpec: the abstract machine HashMap (and HashSet = HashMap<T,()>)     *)
(* must refine.  The abstract content of a collection is a SET of element  *)
(* tuples <<class, keyId, value, valueId, pos, tag>> with pairwise         *)
(* distinct classes.  Every operator takes the recorded/generated call `e` *)
(* (fields op, k, id, v, vid, n, j, ks, r, y) and returns                  *)
(*   [A  |-> abstract content afterwards,                                  *)
(*    dr |-> set of object ids the collection must have dropped,           *)
(*    ok |-> the reported result e.r / e.y / e.pn is exactly what a        *)
(*           reference association list would report]                      *)
(* Only what the properties state is constrained: traversal results are    *)
(* compared as bags, never as sequences (DESIGN 3.6).                      *)
(***************************************************************************)
EXTENDS HbCore

Has(A, k) == \E x \in A : x[1] = k
Get(A, k) == CHOOSE x \in A : x[1] = k
SetV(x, v) == <<x[1], x[2], v, x[4], x[5], x[6]>>
BumpV(v) == IF v = 0 THEN 0 ELSE v + 1000     \* the drivers' predicates add 1000 to real values (unit values stay 0)
SetVV(x, v, vid) == <<x[1], x[2], v, vid, x[5], x[6]>>
Ids(S) == S \ {0, -1}
AllIds(A) == Ids({x[2] : x \in A} \cup {x[4] : x \in A})
KV(A) == {<<x[1], x[3]>> : x \in A}
SeqToSet(s) == {s[i] : i \in 1..Len(s)}
NoDupSeq(s) == \A i, j \in 1..Len(s) : i # j => s[i] # s[j]

AR(A, dr, ok) == [A |-> A, dr |-> Ids(dr), ok |-> ok]

\* the element a call would insert: key identity e.id, value e.v / e.vid, hash h of the class
NewElem(e, h) == MkElem(e.k, e.id, e.v, e.vid, h)

AbsInsertKV(A, k, id, v, vid, h) ==
  IF Has(A, k)
  THEN LET x == Get(A, k) IN [A |-> (A \ {x}) \cup {SetVV(x, v, vid)}, dr |-> {id}, old |-> <<x[3], x[4]>>]
  ELSE [A |-> A \cup {MkElem(k, id, v, vid, h)}, dr |-> {}, old |-> <<-1, -1>>]

\* extend: the pairs listed in e.y are inserted in order (hashes from the plan function ph)
RECURSIVE AbsExtend(_, _, _, _)
AbsExtend(A, ys, ph, dr) ==
  IF ys = <<>> THEN [A |-> A, dr |-> dr]
  ELSE LET y == Head(ys)
           r == AbsInsertKV(A, y[1], y[2], y[3], y[4], ph[y[1]])
       IN AbsExtend(r.A, Tail(ys), ph, dr \cup r.dr \cup {r.old[2]})   \* extend drops the replaced values

\* size_hint/len triples logged as <<lo, hi, len>> flattened; must count down from n0
HintsOK(r, n0) ==
  /\ Len(r) % 3 = 0
  /\ \A i \in 1..(Len(r) \div 3) :
        LET rem == IF n0 - (i - 1) > 0 THEN n0 - (i - 1) ELSE 0
        IN r[3*i - 2] = rem /\ r[3*i - 1] = rem /\ r[3*i] = rem

(* ph: function class -> [pos, tag] for the table's current plan.
   A2: abstract content of the other table (for two-table operations). *)
AbsMapOp(e, A, A2, ph) ==
  LET k == e.k
      P == Has(A, k)
      x == IF P THEN Get(A, k) ELSE NoElem
      h == IF k >= 0 THEN ph[k] ELSE [pos |-> 0, tag |-> 0]
      ne == NewElem(e, h)
      same(r) == AR(A, {}, e.r = r /\ e.pn = "")
  IN
  CASE e.op \in {"new", "with_capacity"} -> AR({}, AllIds(A), e.pn = "")
    [] e.op = "drop" -> AR({}, AllIds(A), e.pn = "")
    [] e.op = "insert" ->
         LET r == AbsInsertKV(A, k, e.id, e.v, e.vid, h) IN AR(r.A, r.dr, e.r = r.old /\ e.pn = "")
    [] e.op = "get" -> same(IF P THEN <<x[2], x[3], x[4]>> ELSE <<-1, -1, -1>>)
    [] e.op = "get_q" -> same(IF P THEN <<x[3], x[4]>> ELSE <<-1, -1>>)
    [] e.op = "contains" -> same(IF P THEN <<1>> ELSE <<0>>)
    \* C09: every default-constructed iterator is empty (r = <<number that behaved as empty, number constructed>>)
    [] e.op = "iter_default" -> AR(A, {}, Len(e.r) = 2 /\ e.r[1] = e.r[2] /\ e.r[2] > 0)
    [] e.op = "re_get" -> same(IF P THEN <<x[2], x[3], x[4]>> ELSE <<-1, -1, -1>>)
    [] e.op = "get_mut" ->
         IF P THEN AR((A \ {x}) \cup {SetV(x, e.v)}, {}, e.r = <<1>> /\ e.pn = "") ELSE same(<<0>>)
    [] e.op = "get_kv_mut" ->
         IF P THEN AR((A \ {x}) \cup {SetV(x, e.v)}, {}, e.r = <<1, x[2]>> /\ e.pn = "") ELSE same(<<0, -1>>)
    [] e.op = "index" ->
         IF P THEN same(<<x[3]>>) ELSE AR(A, {}, e.pn = "index")
    [] e.op = "remove" ->
         IF P THEN AR(A \ {x}, {x[2]}, e.r = <<x[3], x[4]>> /\ e.pn = "") ELSE same(<<-1, -1>>)
    [] e.op = "remove_entry" ->
         IF P THEN AR(A \ {x}, {}, e.r = <<x[2], x[3], x[4]>> /\ e.pn = "") ELSE same(<<-1, -1, -1>>)
    [] e.op = "try_insert" ->
         IF P THEN AR(A, {e.id}, e.r = <<0, x[3], x[2]>> /\ e.pn = "")
         ELSE AR(A \cup {ne}, {}, e.r = <<1, -1, -1>> /\ e.pn = "")
    [] e.op \in {"e_or_insert", "e_or_insert_with", "rc_or_insert"} ->
         IF P THEN AR(A, {e.id, e.vid}, e.r = <<1, x[3], x[4]>> /\ e.pn = "")
         ELSE AR(A \cup {ne}, {}, e.r = <<0, e.v, e.vid>> /\ e.pn = "")
    [] e.op = "e_or_insert_with_key" ->
         IF P THEN AR(A, {e.id, e.vid}, e.r = <<1, x[3], x[4]>> /\ e.pn = "")
         ELSE AR(A \cup {MkElem(k, e.id, e.v + k, e.vid, h)}, {}, e.r = <<0, e.v + k, e.vid>> /\ e.pn = "")
    [] e.op = "e_and_modify_or_insert" ->
         IF P THEN AR((A \ {x}) \cup {SetV(x, x[3] + 100)}, {e.id, e.vid}, e.r = <<1, x[3] + 100, x[4]>> /\ e.pn = "")
         ELSE AR(A \cup {ne}, {}, e.r = <<0, e.v, e.vid>> /\ e.pn = "")
    [] e.op \in {"e_insert", "rc_insert"} ->
         IF P THEN AR((A \ {x}) \cup {SetVV(x, e.v, e.vid)}, {e.id, x[4]}, e.r = <<1, e.v, x[2]>> /\ e.pn = "")
         ELSE AR(A \cup {ne}, {}, e.r = <<0, e.v, e.id>> /\ e.pn = "")
    [] e.op \in {"e_remove", "rc_remove"} ->
         IF P THEN AR(A \ {x}, {e.id, x[2]}, e.r = <<1, x[3], x[4]>> /\ e.pn = "")
         ELSE AR(A, {e.id}, e.r = <<0, e.id>> /\ e.pn = "")
    [] e.op = "e_remove_entry" ->
         IF P THEN AR(A \ {x}, {e.id}, e.r = <<1, x[2], x[3], x[4]>> /\ e.pn = "")
         ELSE AR(A, {e.id}, e.r = <<0, e.id>> /\ e.pn = "")
    [] e.op = "e_occ_insert" ->
         IF P THEN AR((A \ {x}) \cup {SetVV(x, e.v, e.vid)}, {e.id}, e.r = <<1, x[3], x[4]>> /\ e.pn = "")
         ELSE AR(A, {e.id}, e.r = <<0, e.id>> /\ e.pn = "")
    [] e.op = "e_occ_get_mut" ->
         IF P THEN AR((A \ {x}) \cup {SetV(x, e.v)}, {e.id}, e.r = <<1, e.v, x[2]>> /\ e.pn = "")
         ELSE AR(A, {e.id}, e.r = <<0, e.id>> /\ e.pn = "")
    [] e.op = "e_replace_some" ->
         IF P THEN AR((A \ {x}) \cup {SetV(x, e.v)}, {e.id}, e.r = <<1, 1>> /\ e.pn = "")
         ELSE AR(A, {e.id}, e.r = <<0, e.id>> /\ e.pn = "")
    [] e.op = "e_replace_none" ->
         IF P THEN AR(A \ {x}, {e.id, x[2], x[4]}, e.r = <<1, 0>> /\ e.pn = "")
         ELSE AR(A, {e.id}, e.r = <<0, e.id>> /\ e.pn = "")
    [] e.op = "e_and_replace_some" ->
         IF P THEN AR((A \ {x}) \cup {SetV(x, e.v)}, {e.id}, e.r = <<1, 1>> /\ e.pn = "")
         ELSE AR(A, {e.id}, e.r = <<0, 0>> /\ e.pn = "")
    [] e.op = "e_and_replace_none" ->
         IF P THEN AR(A \ {x}, {e.id, x[2], x[4]}, e.r = <<1, 0>> /\ e.pn = "")
         ELSE AR(A, {e.id}, e.r = <<0, 0>> /\ e.pn = "")
    [] e.op = "e_vacant_drop" ->
         AR(A, {e.id}, e.r = (IF P THEN <<1, x[2]>> ELSE <<0, e.id>>) /\ e.pn = "")
    [] e.op \in {"e_insert_entry", "rc_insert_entry"} ->
         IF P THEN AR(A, {e.id}, e.r = <<1, x[3], x[2]>> /\ e.pn = "")
         ELSE AR(A \cup {ne}, {}, e.r = <<0, e.v, e.id>> /\ e.pn = "")
    [] e.op = "e_into_key" ->
         IF P THEN AR(A, {e.id}, e.r = <<1, x[3], x[2]>> /\ e.pn = "")
         ELSE AR(A, {}, e.r = <<0, e.id>> /\ e.pn = "")
    [] e.op = "rc_vacant_drop" ->
         AR(A, {e.id}, e.r = (IF P THEN <<1, x[3], x[2]>> ELSE <<0, e.id>>) /\ e.pn = "")
    \* entry_ref: the key object is created by `From<&Q>` inside the call; its identity is reported in e.r[3]
    [] e.op = "er_or_insert" ->
         IF P THEN AR(A, {e.vid}, e.r = <<1, x[3], x[4]>> /\ e.pn = "")
         ELSE AR(A \cup {MkElem(k, e.id, e.v, e.vid, h)}, {}, e.r = <<0, e.v, e.vid>> /\ e.pn = "")
    [] e.op = "er_and_modify_or_insert" ->
         IF P THEN AR((A \ {x}) \cup {SetV(x, x[3] + 100)}, {e.vid}, e.r = <<1, x[3] + 100, x[4]>> /\ e.pn = "")
         ELSE AR(A \cup {MkElem(k, e.id, e.v, e.vid, h)}, {}, e.r = <<0, e.v, e.vid>> /\ e.pn = "")
    [] e.op = "er_insert" ->
         IF P THEN AR((A \ {x}) \cup {SetVV(x, e.v, e.vid)}, {x[4]}, e.r = <<1, e.v, x[2]>> /\ e.pn = "")
         ELSE AR(A \cup {MkElem(k, e.id, e.v, e.vid, h)}, {}, e.r = <<0, e.v, e.id>> /\ e.pn = "")
    [] e.op = "er_insert_entry" ->
         IF P THEN AR(A, {}, e.r = <<1, x[3], x[2]>> /\ e.pn = "")
         ELSE AR(A \cup {MkElem(k, e.id, e.v, e.vid, h)}, {}, e.r = <<0, e.v, e.id>> /\ e.pn = "")
    [] e.op = "er_drop" -> same(IF P THEN <<1>> ELSE <<0>>)
    [] e.op \in {"re_from_key_or_insert", "re_hashed_or_insert", "re_from_hash_or_insert"} ->
         IF P THEN same(<<1, x[2], x[3], x[4]>>)
         ELSE AR(A \cup {ne}, {}, e.r = <<0, e.id, e.v, e.vid>> /\ e.pn = "")
    [] e.op \in {"re_insert_hashed_nocheck", "re_insert_with_hasher"} ->
         IF P THEN same(<<1, x[2], x[3], x[4]>>)
         ELSE AR(A \cup {ne}, {}, e.r = <<0, e.id, e.v, e.vid>> /\ e.pn = "")
    [] e.op = "re_remove" ->
         IF P THEN AR(A \ {x}, {}, e.r = <<1, x[2], x[3], x[4]>> /\ e.pn = "") ELSE same(<<0, -1, -1, -1>>)
    [] e.op = "re_replace_some" ->
         IF P THEN AR((A \ {x}) \cup {SetV(x, e.v)}, {}, e.r = <<1, 1, -1, -1>> /\ e.pn = "") ELSE same(<<0, -1, -1, -1>>)
    [] e.op = "re_replace_none" ->
         IF P THEN AR(A \ {x}, {x[2], x[4]}, e.r = <<1, 0, -1, -1>> /\ e.pn = "") ELSE same(<<0, -1, -1, -1>>)
    [] e.op = "re_drop" -> same(IF P THEN <<1, x[2], x[3], x[4]>> ELSE <<0, -1, -1, -1>>)
    [] e.op = "insert_unique_unchecked" ->
         AR(A \cup {ne}, {}, ~P /\ e.r = <<e.id, e.v>> /\ e.pn = "")
    [] e.op = "extend" ->
         LET r == AbsExtend(A, e.y, ph, {}) IN AR(r.A, r.dr, e.pn = "")
    [] e.op = "clear" -> AR({}, AllIds(A), e.pn = "")
    [] e.op \in {"reserve", "shrink_to", "shrink_to_fit"} -> AR(A, {}, e.pn = "")
    [] e.op = "try_reserve" -> AR(A, {}, e.pn = "" /\ Len(e.r) = 3 /\ e.r[1] \in {0, 1, 2})
    [] e.op = "retain" ->
         LET K == SeqToSet(e.ks)
             kept == {SetV(y, BumpV(y[3])) : y \in {z \in A : z[1] \in K}}
             gone == {z \in A : z[1] \notin K}
         IN AR(kept, {z[2] : z \in gone} \cup {z[4] : z \in gone},
               \* predicate called exactly once per element, with the element's current contents
               /\ Len(e.y) = Cardinality(A)
               /\ {<<y[1], y[2], y[3], y[4]>> : y \in SeqToSet(e.y)} = {<<z[1], z[2], z[3], z[4]>> : z \in A}
               /\ e.pn = "")
    [] e.op = "extract_if" ->
         LET S == SeqToSet(e.ks)
             Vs == SeqToSet(e.r)                       \* classes the predicate was called on
             exhausted == e.j < 0 \/ Len(e.y) < e.j
             out == {z \in A : z[1] \in Vs /\ z[1] \in S}
             stay == {z \in A : z[1] \notin Vs} \cup {SetV(z, BumpV(z[3])) : z \in {w \in A : w[1] \in Vs /\ w[1] \notin S}}
         IN AR(stay, {},
               /\ NoDupSeq(e.r)
               /\ Vs \subseteq {z[1] : z \in A}
               /\ (exhausted => Vs = {z[1] : z \in A})
               /\ Len(e.y) = Cardinality(out)
               /\ (e.j >= 0 => Len(e.y) <= e.j)
               /\ SeqToSet(e.y) = {<<z[1], z[2], BumpV(z[3]), z[4]>> : z \in out}
               /\ e.pn = "")
    [] e.op = "drain" ->
         LET Y == SeqToSet(e.y)
             AY == {<<z[1], z[2], z[3], z[4]>> : z \in A}
             rest == {z \in A : <<z[1], z[2], z[3], z[4]>> \notin Y}
         IN AR({}, IF e.n = 1 THEN {} ELSE {z[2] : z \in rest} \cup {z[4] : z \in rest},
               /\ NoDupSeq(e.y) /\ Y \subseteq AY
               \* (n = 2: after j calls of next() the rest is consumed by fold - everything is yielded)
               /\ (IF e.j < 0 \/ e.j >= Cardinality(A) \/ e.n = 2 THEN Len(e.y) = Cardinality(A) ELSE Len(e.y) = e.j)
               /\ HintsOK(e.r, Cardinality(A))
               /\ e.pn = "")
    [] e.op = "into_iter" ->
         LET Y == SeqToSet(e.y)
             proj(z) == IF e.n = 0 THEN <<z[1], z[2], z[3], z[4]>>
                        ELSE IF e.n = 1 THEN <<z[1], z[2], -1, -1>> ELSE <<-1, -1, z[3], z[4]>>
             AY == {proj(z) : z \in A}
             rest == {z \in A : proj(z) \notin Y}
             taken == A \ rest
             dr == {z[2] : z \in rest} \cup {z[4] : z \in rest}
                   \cup (IF e.n = 1 THEN {z[4] : z \in taken} ELSE IF e.n = 2 THEN {z[2] : z \in taken} ELSE {})
         IN AR({}, dr,
               \* sub-bag: untracked values may legitimately repeat
               /\ \A y \in Y : Cardinality({i \in 1..Len(e.y) : e.y[i] = y}) <= Cardinality({z \in A : proj(z) = y})
               /\ (IF e.j < 0 \/ e.j >= Cardinality(A) THEN Len(e.y) = Cardinality(A) ELSE Len(e.y) = e.j)
               /\ HintsOK(e.r, Cardinality(A))
               /\ e.pn = "")
    [] e.op = "eq" -> LET b == IF KV(A) = KV(A2) THEN 1 ELSE 0 IN same(<<b, b>>)
    \* ---- rayon: every element is delivered to the consumer exactly once, whatever the split / schedule
    [] e.op = "par_iter" ->
         LET proj(z) == IF e.n \in {0, 3} THEN <<z[1], z[2], z[3], z[4]>>
                        ELSE IF e.n = 1 THEN <<z[1], z[2], -1, -1>> ELSE <<-1, -1, z[3], z[4]>>
         IN AR(A, {}, /\ Len(e.y) = Cardinality(A)
                      /\ \A y \in SeqToSet(e.y) : Cardinality({i \in 1..Len(e.y) : e.y[i] = y}) = Cardinality({z \in A : proj(z) = y})
                      /\ e.pn = "")
    [] e.op \in {"par_drain", "into_par_iter"} ->
         LET AY == {<<z[1], z[2], z[3], z[4]>> : z \in A}
         IN IF e.n = 2
            THEN \* a consumer that panics on class k: every element is still consumed or dropped exactly once and the
                 \* collection ends up empty and usable (RawParDrain's guard)
                 AR({}, AllIds(A), e.pn = (IF Has(A, e.k) THEN "consumer" ELSE ""))
            ELSE IF e.n = 0
            THEN AR({}, {}, /\ NoDupSeq(e.y) /\ SeqToSet(e.y) = AY /\ e.r = <<Cardinality(A)>> /\ e.pn = "")
            ELSE \* short-circuiting consumer: what it did not return is dropped exactly once
                 IF Len(e.y) = 1 /\ e.y[1] \in AY /\ e.y[1][1] = e.k
                 THEN AR({}, AllIds(A) \ Ids({e.y[1][2], e.y[1][4]}), e.r = <<e.y[1][2]>> /\ e.pn = "")
                 ELSE AR({}, AllIds(A), e.y = <<>> /\ e.r = <<-1>> /\ ~Has(A, e.k) /\ e.pn = "")
    [] e.op = "par_extend" ->
         LET r == AbsExtend(A, e.y, ph, {}) IN AR(r.A, r.dr, e.pn = "")
    [] e.op = "par_eq" -> LET b == IF KV(A) = KV(A2) THEN 1 ELSE 0 IN AR(A, {}, e.pn = "" /\ \A i \in 1..Len(e.r) : e.r[i] = b)
    [] OTHER -> AR(A, {}, FALSE)
=============================================================================
