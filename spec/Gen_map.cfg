SPECIFICATION Spec
CONSTANTS
  W = 16
  NK = 26
  PlanId = 1
  Depth = 90
  Es = 16
  OpNames = {"insert", "remove", "get", "e_or_insert", "rc_or_insert", "e_remove", "e_replace_none", "e_replace_some", "re_from_key_or_insert", "try_insert", "rc_remove", "rc_vacant_drop", "e_insert", "re_insert_hashed_nocheck", "reserve", "shrink_to", "shrink_to_fit", "clear", "retain", "drain"}
  Kind = "map"
INVARIANTS Inv Emit
CHECK_DEADLOCK FALSE
