------------------------------ MODULE Gen_map ------------------------------
(***************************************************************************)
(* Behaviour generator (spec -> impl).  TLC's simulation mode walks the     *)
(* HashMap model at a REAL group width with a colliding hash plan; every    *)
(* step is labelled with a branch signature computed from the specification *)
(* (which arms of the operators were taken: probe depth, tombstone on the   *)
(* probe path, slot reuse, erase rule, growth path, table-size regime,      *)
(* full load, ...).  Finished behaviours are printed as JSON; bin/gen-corpus *)
(* keeps a small set of behaviour prefixes that covers every signature seen *)
(* and the harness replays them on the real collections in every check.     *)
(***************************************************************************)
EXTENDS HbTableOps, TLCExt, SequencesExt, Json

CONSTANTS NK, PlanId, Depth, Es, OpNames,
          Kind       \* "map", "set" or "table": which collection's composition rules are walked

Keys == 0..(NK - 1)
VARIABLES t, hist
vars == <<t, hist>>

\* deterministic colliding plans (the harness implements exactly these)
PlanOf(k) ==
  CASE PlanId = 1 -> [pos |-> 0, tag |-> 0]                                        \* everything collides
    [] PlanId = 2 -> [pos |-> IF k < (2 * NK) \div 3 THEN 0 ELSE W, tag |-> k % 2]
    [] PlanId = 3 -> [pos |-> IF k % 2 = 0 THEN 65535 ELSE 0, tag |-> k % 3]       \* wraps around the end of the table
    [] PlanId = 4 -> [pos |-> (k * W) % 65536, tag |-> 1]                          \* one home group per key
    [] PlanId = 5 -> [pos |-> (k % 4) * 5, tag |-> k % 2]
    [] PlanId = 6 -> [pos |-> IF k < NK \div 2 THEN W - 3 ELSE 2 * W - 3, tag |-> 5] \* straddles group boundaries
    \* clusters that start in the last groups of the table and run over its end into the first group
    [] PlanId = 8 -> [pos |-> IF k % 3 = 0 THEN 65536 - W - 2 ELSE IF k % 3 = 1 THEN 65536 - 3 ELSE 65536 - (W \div 2), tag |-> k % 2]
    \* overlapping short clusters: a probe usually meets real EMPTY bytes before tombstones
    [] PlanId = 9 -> [pos |-> (k * 7) % (4 * W), tag |-> k % 4]
    [] OTHER -> [pos |-> k, tag |-> k % 128]
hp == [k \in Keys |-> PlanOf(k)]

Init == t = Singleton(Es) /\ hist = <<>>

\* ---- branch signature of a step
RECURSIVE ProbeInfo(_, _, _, _, _, _, _, _)
\* <<groups probed, found?, a DELETED byte was seen on the way>>
ProbeInfo(c, d, m, k, tag, p, stride, seenDel) ==
  LET M == {i \in 0..(W-1) : c[p + i] = tag /\ EK(d[(p + i) % (m + 1)]) = k}
      del == seenDel \/ (\E i \in 0..(W-1) : c[p + i] = DELETED)
  IN IF M # {} THEN <<stride \div W, TRUE, seenDel>>
     ELSE IF HasEmpty(c, p) THEN <<stride \div W, FALSE, del>>
     ELSE ProbeInfo(c, d, m, k, tag, NextPos(p, stride + W, m), stride + W, del)
Cl(n) == IF n >= 2 THEN 2 ELSE n
Regime(x) == IF x.mask = 0 THEN "singleton" ELSE IF x.mask + 1 < W THEN "small" ELSE IF x.mask + 1 = W THEN "equal" ELSE "large"
Sig(e, t0, t1) ==
  LET k == e.k
      pi == IF k >= 0 THEN ProbeInfo(t0.ctrl, t0.data, t0.mask, k, hp[k].tag, Pos0(hp[k], t0.mask), 0, FALSE) ELSE <<0, FALSE, FALSE>>
      grow == IF t1.mask > t0.mask THEN "grow" ELSE IF t1.mask < t0.mask THEN "shrink"
              \* growth_left rises although no element left: tombstones were reclaimed by an in-place rehash
              ELSE IF t1.gl > t0.gl /\ t1.items >= t0.items /\ t0.mask # 0 THEN "inplace" ELSE "same"
      moved == grow = "inplace" /\ \E i \in FullIdx(t0) : t1.data[i] # t0.data[i]
      \* some bucket changed from FULL(x) to FULL(y) during an in-place rehash: the swap arm of the rehash loop
      swapped == grow = "inplace" /\ \E i \in FullIdx(t0) : i \in FullIdx(t1) /\ EK(t1.data[i]) # EK(t0.data[i])
      newIdx == FullIdx(t1) \ FullIdx(t0)
      slot == IF grow = "same" /\ Cardinality(newIdx) = 1
              THEN (IF t0.ctrl[CHOOSE i \in newIdx : TRUE] = DELETED THEN "reuse-del" ELSE "use-empty") ELSE "-"
      goneIdx == FullIdx(t0) \ FullIdx(t1)
      er == IF grow = "same" /\ Cardinality(goneIdx) = 1
            THEN (IF t1.ctrl[CHOOSE i \in goneIdx : TRUE] = DELETED THEN "erase-del" ELSE "erase-empty") ELSE "-"
      \* erase in the first group of a multi-group table whose last bucket is occupied: the EMPTY/DELETED rule looks
      \* at the group that precedes the slot cyclically (the tail of the bucket array)
      eFirst == er # "-" /\ t0.mask + 1 > W /\ (CHOOSE i \in goneIdx : TRUE) < W /\ t0.ctrl[t0.mask] # EMPTY
      \* an absent key is inserted: kind of the slot found BEFORE any reservation, and what an in-place rehash made of it
      ins == k >= 0 /\ t1.items = t0.items + 1 /\ t0.mask # 0
      slot0 == IF ins THEN FindInsertSlot(t0.ctrl, t0.mask, hp[k]) ELSE 0
      s0 == IF ~ins THEN "-" ELSE IF t0.ctrl[slot0] = EMPTY THEN "E" ELSE "D"
      stale == ins /\ grow = "inplace" /\ slot0 \in FullIdx(t1) /\ EK(t1.data[slot0]) # k
  IN <<e.op, Cl(pi[1]), pi[2], pi[3], grow, moved, swapped, slot, er, Regime(t0), t0.gl = 0, NumDel(t0) > 0, eFirst, s0, stale>>

Ev(op, k, v, n, ks, r) ==
  [op |-> op, t |-> 1, u |-> 0, k |-> k, id |-> 1, v |-> v, vid |-> 0, n |-> n, j |-> -1, ks |-> ks, r |-> r, y |-> <<>>, pn |-> ""]

HQ(e) == IF e.k >= 0 THEN hp[e.k] ELSE [pos |-> 0, tag |-> 0]
KOp(e, tt) == CASE Kind = "set" -> SetOp(e, tt, tt, hp, LawfulEnv)
                [] Kind = "table" -> TableOp(e, tt, HQ(e), LawfulEnv)
                [] OTHER -> MapOp(e, tt, hp, LawfulEnv)
InsOp == IF Kind = "table" THEN "t_insert_unique" ELSE "insert"
RemOp == IF Kind = "table" THEN "t_remove" ELSE "remove"

Step(e) ==
  LET c == KOp(e, t)
  IN /\ Len(hist) < Depth
     /\ t' = c.t
     /\ hist' = Append(hist, [op |-> e.op, k |-> e.k, v |-> e.v, n |-> e.n, j |-> e.j, ks |-> e.ks, sig |-> ToString(Sig(e, t, c.t))])

KeyOps == OpNames \cap {"insert", "remove", "get", "e_or_insert", "rc_or_insert", "e_remove", "e_replace_none", "e_replace_some",
                        "re_from_key_or_insert", "try_insert", "rc_remove", "rc_vacant_drop", "e_insert", "re_insert_hashed_nocheck",
                        "replace", "take", "get_or_insert", "s_entry_insert", "s_entry_remove",
                        "t_insert_unique", "t_remove", "t_remove_reinsert", "t_entry_or_insert", "t_entry_insert", "t_entry_drop", "t_find",
                        "t_iter_hash"}
Subsets == {{k \in Keys : k % 2 = 0}, {k \in Keys : k % 3 # 0}, {k \in Keys : k < NK \div 2}, {}}

\* macro steps: a whole sequence of calls in one simulation step, so that deep states (exactly full load,
\* tombstone saturation, in-place rehash) are reached within a short behaviour
RECURSIVE RunSeq(_, _, _)
RunSeq(tt, es, acc) ==
  IF es = <<>> THEN [t |-> tt, h |-> acc]
  ELSE LET e == Head(es)
           c == KOp(e, tt)
       IN RunSeq(c.t, Tail(es), Append(acc, [op |-> e.op, k |-> e.k, v |-> e.v, n |-> e.n, j |-> e.j, ks |-> e.ks,
                                                sig |-> ToString(Sig(e, tt, c.t))]))
Macro(es) ==
  LET r == RunSeq(t, es, <<>>)
  IN /\ Len(hist) + Len(es) <= Depth + NK
     /\ Len(hist) < Depth
     /\ t' = r.t
     /\ hist' = hist \o r.h
SeqOfSet(S, op) == LET s == SetToSortSeq(S, <) IN [i \in 1..Len(s) |-> Ev(op, s[i], IF Kind = "set" THEN 0 ELSE 1, 0, <<>>, <<>>)]
Absent == {k \in Keys : Find(t, k, hp[k]) = -1}
Present == Keys \ Absent

Next ==
  \/ \E op \in KeyOps, k \in Keys : Step(Ev(op, k, IF Kind = "set" THEN 0 ELSE 1 + (k % 3), 0, <<>>, <<>>))
  \/ /\ "t_shrink_to_fit" \in OpNames /\ Step(Ev("t_shrink_to_fit", -1, 0, 0, <<>>, <<>>))
  \* inserts and removes get extra weight (simulation picks uniformly among successors)
  \/ \E k \in Keys, w \in 1..3 : Step(Ev(InsOp, k, IF Kind = "set" THEN 0 ELSE w, 0, <<>>, <<>>))
  \/ \E k \in Keys, w \in 1..2 : Step(Ev(RemOp, k, 0, 0, <<>>, <<>>))
  \/ /\ "reserve" \in OpNames /\ \E n \in {1, 3, NK \div 2, NK} : Step(Ev("reserve", -1, 0, n, <<>>, <<>>))
  \/ /\ "shrink_to" \in OpNames /\ \E n \in {0, 2, NK \div 2} : Step(Ev("shrink_to", -1, 0, n, <<>>, <<>>))
  \/ /\ "shrink_to_fit" \in OpNames /\ Step(Ev("shrink_to_fit", -1, 0, 0, <<>>, <<>>))
  \/ /\ "clear" \in OpNames /\ t.items > 0 /\ Step(Ev("clear", -1, 0, 0, <<>>, <<>>))
  \/ /\ "retain" \in OpNames /\ \E K \in Subsets : Step(Ev("retain", -1, 0, 0, SetToSeq(K), <<>>))
  \/ /\ "drain" \in OpNames /\ t.items > 0 /\ Step(Ev("drain", -1, 0, 0, <<>>, <<>>))
  \* macros (weighted by repetition)
  \/ \E w \in 1..3 : Absent # {} /\ Macro(SeqOfSet(Absent, InsOp))                      \* fill up
  \/ \E m \in {2, NK \div 4, NK \div 3, NK \div 2} :
        /\ {k \in Present : k >= m} # {} /\ Macro(SeqOfSet({k \in Present : k >= m}, RemOp))          \* remove the tail
  \/ \E w \in 1..2 : {k \in Present : k % 2 = 1} # {} /\ Macro(SeqOfSet({k \in Present : k % 2 = 1}, RemOp))
  \/ \E m \in {NK \div 3, NK \div 2} :
        /\ {k \in Present : k < m} # {} /\ Macro(SeqOfSet({k \in Present : k < m}, RemOp))           \* remove the head

Spec == Init /\ [][Next]_vars

\* one line per finished behaviour
Emit == (Len(hist) >= Depth) =>
          PrintT("GENBEH " \o ToJson([kind |-> Kind, plan |-> [k \in 1..NK |-> <<hp[k - 1].pos, hp[k - 1].tag>>], ops |-> hist]))
\* the specification's own invariant holds along every generated behaviour
Inv == IF Kind = "table" THEN InvTable(t, TRUE) ELSE InvMap(t, TRUE)
=============================================================================
