------------------------------ MODULE HbCount ------------------------------
(***************************************************************************)
(* Counter abstraction of the table bookkeeping, for EVERY table size.      *)
(*                                                                         *)
(* The concrete machine (HbCore) is model-checked at small bucket counts.   *)
(* Two facts that the properties C01, C08 and C13 rest on do not depend on  *)
(* the positions of the control bytes at all, only on how many of them are  *)
(* FULL, DELETED and EMPTY and on the counter growth_left:                  *)
(*                                                                         *)
(*   Acct      items + deleted + growth_left = capacity(buckets)           *)
(*   HasEmpty  buckets - items - deleted >= 1    (every probe terminates)  *)
(*   CapLen    capacity() = items + growth_left >= len()                   *)
(*                                                                         *)
(* This module states the bookkeeping of each raw step (src/raw/mod.rs:    *)
(* record_item_insert_at, erase, rehash_in_place, resize_inner,            *)
(* clear_no_drop, shrink_to, clone_from_impl) over integers only, so that   *)
(* Apalache can prove IndInv inductive for unbounded bucket counts          *)
(* (Init => IndInv, IndInv /\ Next => IndInv'), and TLC can enumerate it    *)
(* for small ones.  The trace specification checks (STRICT) that every      *)
(* observed step of the implementation is one of these counter steps.       *)
(***************************************************************************)
EXTENDS Integers

VARIABLES
  \* @type: Int;
  buckets,      \* 1 for the unallocated singleton, otherwise a power of two >= 4 (only "4, or a multiple of 8" matters here)
  \* @type: Int;
  items,        \* FULL control bytes
  \* @type: Int;
  deleted,      \* DELETED control bytes (tombstones)
  \* @type: Int;
  gl            \* growth_left

\* bucket_mask_to_capacity(buckets - 1)
\* @type: (Int) => Int;
CapB(b) == IF b < 9 THEN b - 1 ELSE (b \div 8) * 7

\* @type: (Int) => Bool;
ValidBuckets(b) == b = 1 \/ b = 4 \/ (b >= 8 /\ b % 8 = 0)

Init == buckets = 1 /\ items = 0 /\ deleted = 0 /\ gl = 0

empties == buckets - items - deleted

(* ---- steps ------------------------------------------------------------ *)

\* record_item_insert_at into an EMPTY byte: allowed only while growth_left > 0 (callers reserve first otherwise)
InsertEmpty == /\ gl > 0 /\ empties >= 1 /\ buckets > 1
               /\ items' = items + 1 /\ gl' = gl - 1 /\ UNCHANGED <<buckets, deleted>>

\* ... into a DELETED byte: growth_left is not consumed
InsertDeleted == /\ deleted > 0
                 /\ items' = items + 1 /\ deleted' = deleted - 1 /\ UNCHANGED <<buckets, gl>>

\* erase: the byte becomes EMPTY (growth_left is handed back) or DELETED - the choice depends on the neighbourhood
EraseToEmpty == /\ items > 0
                /\ items' = items - 1 /\ gl' = gl + 1 /\ UNCHANGED <<buckets, deleted>>
EraseToDeleted == /\ items > 0
                  /\ items' = items - 1 /\ deleted' = deleted + 1 /\ UNCHANGED <<buckets, gl>>

\* rehash_in_place: every tombstone becomes EMPTY, growth_left is recomputed
RehashInPlace == /\ buckets > 1
                 /\ deleted' = 0 /\ gl' = CapB(buckets) - items /\ UNCHANGED <<buckets, items>>

\* resize_inner / shrink_to / clone into a fresh table: any valid bucket count whose capacity holds the items
Resize == \E nb \in Int :
            /\ ValidBuckets(nb) /\ nb > 1 /\ CapB(nb) >= items
            /\ buckets' = nb /\ deleted' = 0 /\ gl' = CapB(nb) - items /\ UNCHANGED items

\* clear_no_drop (clear, drain, the clone_from guard)
Clear == /\ items' = 0 /\ deleted' = 0 /\ gl' = CapB(buckets) /\ UNCHANGED buckets

\* shrink_to(0) of an empty table / drop + new
Free == /\ items = 0 /\ buckets' = 1 /\ items' = 0 /\ deleted' = 0 /\ gl' = 0

Next == InsertEmpty \/ InsertDeleted \/ EraseToEmpty \/ EraseToDeleted \/ RehashInPlace \/ Resize \/ Clear \/ Free

(* ---- invariants --------------------------------------------------------- *)

Acct == items + deleted + gl = CapB(buckets)
IndInv == /\ ValidBuckets(buckets)
          /\ items >= 0 /\ deleted >= 0 /\ gl >= 0
          /\ Acct

IndInit == buckets \in Int /\ items \in Int /\ deleted \in Int /\ gl \in Int /\ IndInv

\* consequences (checked as invariants of IndInv itself: IndInv => ...)
HasEmpty == buckets > 1 => empties >= 1
CapLen == items + gl >= items /\ items <= CapB(buckets)
\* at least one eighth of the buckets (one for the small tables) is never FULL or DELETED
Slack == buckets >= 8 => empties >= buckets \div 8
Consequences == IndInv => (HasEmpty /\ CapLen /\ Slack)

\* a classifier used by the trace specification: is (b,i,d,g) -> (b2,i2,d2,g2) a composition of at most n counter steps?
\* (one public call may do several: e.g. insert = [reserve: rehash or resize] + insert)
\* @type: (Int, Int, Int, Int) => Bool;
GoodState(b, i, d, g) == ValidBuckets(b) /\ i >= 0 /\ d >= 0 /\ g >= 0 /\ i + d + g = CapB(b)
=============================================================================
