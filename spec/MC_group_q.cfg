SPECIFICATION Spec
CONSTANTS
  GW = 8
  Tags = {1, 127}
  Positions = {0, 6}
INVARIANT GroupInv
CHECK_DEADLOCK FALSE
