SPECIFICATION Spec
CONSTANTS
  W = 2
  NB = 8
  Es = 8
INVARIANT IterInv
CHECK_DEADLOCK FALSE
