---------------------------- MODULE HbSplitTrace ----------------------------
(* Validates leaf index sets recorded from the real RawIterRange::split (harness `split`, hook verif_split_leaves).
   PROPERTY: the leaves partition the FULL buckets (each exactly once, nothing else).
   STRICT: the leaves equal those of HbSplit along the same decisions (counted as drift only). *)
EXTENDS HbSplit, TLC, TLCExt, Json, IOUtils, SequencesExt

Rec == ndJsonDeserialize(IOEnv.TRACE)
VARIABLE l
Flat(ls) == LET RECURSIVE F(_, _) F(s, acc) == IF s = <<>> THEN acc ELSE F(Tail(s), acc \o Head(s)) IN F(ls, <<>>)
SetOfSeq(s) == {s[i] : i \in 1..Len(s)}
NoDup(s) == \A i, j \in 1..Len(s) : i # j => s[i] # s[j]

PropOK(o) ==
  LET c == [i \in 0..(Len(o.ctrl) - 1) |-> o.ctrl[i + 1]]
      nb == o.buckets
      all == Flat(o.leaves)
      full == {i \in 0..(nb - 1) : IsFullB(c[i])}
  IN NoDup(all) /\ SetOfSeq(all) = (IF nb = 1 THEN {} ELSE full)
StrictOK(o) ==
  LET c == [i \in 0..(Len(o.ctrl) - 1) |-> o.ctrl[i + 1]]
  IN Leaves(c, IF o.buckets = 1 THEN 1 ELSE o.buckets, o.dec) = o.leaves

Init == l = 1 /\ TLCSet(42, 0) /\ TLCSet(43, <<>>) /\ TLCSet(44, 0) /\ TLCSet(45, <<>>)
Next == /\ l <= Len(Rec) /\ TLCGet(43) = <<>> /\ l' = l + 1
        /\ IF PropOK(Rec[l])
           THEN /\ TLCSet(44, TLCGet(44) + 1)
                /\ IF StrictOK(Rec[l]) THEN TRUE ELSE TLCSet(42, TLCGet(42) + 1) /\ (IF TLCGet(45) = <<>> THEN TLCSet(45, <<l>>) ELSE TRUE)
           ELSE TLCSet(43, <<l>>)
Spec == Init /\ [][Next]_l

Accepted ==
  LET rej == TLCGet(43)
      res == [steps |-> TLCGet(44), lines |-> Len(Rec), drift |-> TLCGet(42), foreign |-> 0,
              firstdrift |-> IF TLCGet(45) = <<>> THEN <<>> ELSE <<ToString(TLCGet(45)[1]), "split">>, firstforeign |-> <<>>,
              rejected |-> IF rej # <<>> THEN 1 ELSE 0, line |-> IF rej # <<>> THEN rej[1] ELSE Len(Rec) + 1,
              reasons |-> IF rej # <<>> THEN <<"the leaves of a split tree do not partition the FULL buckets">> ELSE <<>>]
  IN PrintT("HBVRESULT " \o ToJson(res)) /\ rej = <<>>
=============================================================================
