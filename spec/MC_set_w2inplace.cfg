SPECIFICATION FSpec
CONSTANTS
  W = 2
  NK = 7
  Poss = {0}
  Tags = {0}
  Es = 8
  MaxPa = 2
  TRem = {5}
  OpNames = {"insert", "remove", "replace", "get_or_insert", "xor_assign", "or_assign"}
INVARIANTS Inv Refines ChkOK
CHECK_DEADLOCK FALSE
