SPECIFICATION Spec
CONSTANTS
  W = 4
  NK = 6
  Poss = {0, 3}
  Tags = {0}
  OpNames = {"insert", "remove", "e_or_insert", "rc_or_insert", "shrink_to_fit", "e_replace_none"}
  Vals = {1}
  KIds = {1}
  Es = 8
  MaxB = 32
  MaxPa = 0
  TRem = {}
  FixedPlan = 0
INVARIANTS Inv Refines LookupOK ChkOK CapacityOK
CHECK_DEADLOCK FALSE
