------------------------------ MODULE MC_layout ------------------------------
(* Exhaustive TLC check of HbLayout at a scaled word size: every capacity, every element size and
   alignment, every power-of-two bucket count; all overflow arms are reachable. Also the probe sequence. *)
EXTENDS Integers, FiniteSets, Sequences

CONSTANTS BITS, GW
UMAX == 2^BITS - 1
IMAX == 2^(BITS - 1) - 1
L == INSTANCE HbLayout WITH UMAX <- UMAX, IMAX <- IMAX, GW <- GW, BITS <- BITS

VARIABLES mode, cap, size, ealign, buckets
vars == <<mode, cap, size, ealign, buckets>>

Aligns == {2^k : k \in 0..(BITS - 2)}
Init == \/ /\ mode = "c2b" /\ cap \in 1..UMAX /\ size \in {0, 1, 2, 3, 4, 8, 24} /\ ealign = 1 /\ buckets = 1
        \/ /\ mode = "probe" /\ cap = 1 /\ size = 0 /\ ealign = 1 /\ buckets = 1
        \/ /\ mode = "lay" /\ cap = 1 /\ buckets \in L!Pows /\ ealign \in Aligns /\ size \in 0..UMAX /\ size % ealign = 0
Next == UNCHANGED vars
Spec == Init /\ [][Next]_vars

BucketsInv == mode = "c2b" => L!BucketsOK(cap, size)
\* capacity_to_buckets is monotone, so a run-length summary of a scan of the real function is a lossless encoding
MonoInv == (mode = "c2b" /\ cap < UMAX) =>
             LET a == L!C2B(cap, size) b == L!C2B(cap + 1, size) IN (a = -1 => b = -1) /\ (b # -1 => a <= b)
LayoutInv == mode = "lay" => L!LayoutOK(size, ealign, buckets)
\* every overflow arm is reachable (non-vacuity): checked by the driver through `-coverage`

(* probe sequence (ProbeSeq::move_next :83): pos_{j+1} = (pos_j + (j+1)*GW) & mask; for a table of G = buckets/GW groups
   the first G positions hit G distinct groups (relative to the start offset) *)
ProbePos(start, j, mask) == (start + GW * ((j * (j + 1)) \div 2)) % (mask + 1)
ProbeOK == \A k \in 0..(BITS - 4) :
             LET groups == 2^k  bk == groups * GW  mask == bk - 1
             IN bk <= UMAX =>
                \A start \in (IF bk <= 256 THEN 0..(bk - 1) ELSE {0, 1, GW - 1, GW, bk \div 2, bk - 1}) :
                   Cardinality({ProbePos(start, j, mask) : j \in 0..(groups - 1)}) = groups
ProbeInv == mode = "probe" => ProbeOK
=============================================================================
