SPECIFICATION Spec
CONSTANTS
  W = 2
  NK = 4
  Poss = {0, 1, 2, 3}
  Tags = {0, 1}
  OpNames = {"insert", "remove", "e_or_insert", "rc_or_insert", "shrink_to_fit", "e_replace_none", "clear", "reserve", "try_insert", "re_from_key_or_insert"}
  Vals = {1}
  KIds = {1}
  Es = 8
  MaxB = 32
  MaxPa = 0
  TRem = {}
  FixedPlan = 0
INVARIANTS Inv Refines LookupOK ChkOK CapacityOK
CHECK_DEADLOCK FALSE
