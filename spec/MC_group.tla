------------------------------ MODULE MC_group ------------------------------
(* The portable word tricks (HbGroup part 2) against the definitions (part 1): all 2-byte windows of valid control
   bytes at every position of a group, with EMPTY / DELETED / full fillers, for boundary tags. *)
EXTENDS HbGroup, TLC
CONSTANTS Tags, Positions
VARIABLES g, tag
Valid == (0..127) \cup {128, 255}
Init == /\ tag \in Tags
        /\ \E p \in Positions, f \in {255, 128, 3} : \E b1 \in Valid, b2 \in Valid :
             g = [i \in Idx |-> IF i = p THEN b1 ELSE IF i = p + 1 THEN b2 ELSE f]
Next == UNCHANGED <<g, tag>>
Spec == Init /\ [][Next]_<<g, tag>>
GroupInv ==
  /\ AllowedTagMatch(g, tag, GenMatchTag(g, tag))
  /\ \A i \in GenMatchTag(g, tag) : g[i] < 128                    \* never a false positive on EMPTY / DELETED
  /\ GenMatchEmpty(g) = DefMatchEmpty(g)
  /\ GenMatchEmptyOrDeleted(g) = DefMatchEmptyOrDeleted(g)
  /\ GenMatchFull(g) = DefMatchFull(g)
  /\ GenConvert(g) = DefConvert(g)
  \* the facts the table algorithms use: a probe stops at a group with an EMPTY byte, insert slots are special bytes
  /\ (DefMatchEmpty(g) # {}) = (GenMatchEmpty(g) # {})
=============================================================================
