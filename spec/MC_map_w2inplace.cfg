SPECIFICATION FSpec
CONSTANTS
  W = 2
  NK = 7
  Poss = {0}
  Tags = {0}
  OpNames = {"insert", "remove", "e_or_insert"}
  Vals = {1}
  KIds = {1}
  Es = 8
  MaxB = 32
  MaxPa = 3
  TRem = {5}
  FixedPlan = 0
INVARIANTS Inv Refines LookupOK ChkOK CapacityOK
CHECK_DEADLOCK FALSE
