SPECIFICATION FSpec
CONSTANTS
  W = 2
  NK = 4
  Poss = {0}
  Tags = {0, 1}
  Es = 8
  MaxPa = 4
  TRem = {}
  OpNames = {"insert", "remove", "replace", "get_or_insert", "xor_assign", "or_assign", "shrink_to_fit"}
INVARIANTS Inv Refines ChkOK
CHECK_DEADLOCK FALSE
