SPECIFICATION Spec
CONSTANTS
  GW = 8
  Tags = {0, 1, 42, 127}
  Positions = {0, 3, 6}
INVARIANT GroupInv
CHECK_DEADLOCK FALSE
