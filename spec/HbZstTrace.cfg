SPECIFICATION Spec
CONSTANT W = 16
POSTCONDITION Accepted
CHECK_DEADLOCK FALSE
