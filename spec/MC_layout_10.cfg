SPECIFICATION Spec
CONSTANTS
  BITS = 10
  GW = 16
INVARIANTS BucketsInv MonoInv LayoutInv ProbeInv
CHECK_DEADLOCK FALSE
