SPECIFICATION Spec
CONSTANTS
  W = 2
  NK = 3
  Poss = {0, 3}
  Tags = {0}
  Es = 8
  MaxPc = 3
  Vals = {1, 2}
INVARIANTS Inv Refines ChkOK EqOK
CHECK_DEADLOCK FALSE
