------------------------------ MODULE HbLayout ------------------------------
(***************************************************************************)
(* Capacity and layout arithmetic of hashbrown (src/raw/mod.rs:103-240)     *)
(* with explicit machine-word bounds: UMAX = usize::MAX, IMAX = isize::MAX. *)
(* Every checked operation of the code is an explicit comparison here, so   *)
(* the overflow arms are reachable at scaled word sizes (TLC, exhaustive)   *)
(* and provable at 64 bits (Apalache, symbolic).  -1 encodes None.          *)
(* The module is written in the fragment Apalache accepts (typed, no        *)
(* recursion) and is also evaluated by TLC.                                 *)
(***************************************************************************)
EXTENDS Integers

CONSTANTS
  \* @type: Int;
  UMAX,
  \* @type: Int;
  IMAX,
  \* @type: Int;
  GW,        \* group width (16 or 8)
  \* @type: Int;
  BITS

\* @type: (Int) => Int;
Pow2(k) == 2^k
Pows == { Pow2(k) : k \in 0..(BITS - 1) }

\* @type: (Int) => Int;
MinCapL(size) == IF GW = 16 /\ size <= 1 THEN 14
                 ELSE IF GW = 16 /\ size <= 3 THEN 7
                 ELSE IF GW = 8 /\ size <= 1 THEN 7
                 ELSE 3

(* capacity_to_buckets :103 *)
\* @type: (Int, Int) => Int;
C2B(cap, size) ==
  IF cap < 15 THEN
     LET c == IF MinCapL(size) > cap THEN MinCapL(size) ELSE cap
     IN IF c < 4 THEN 4 ELSE IF c < 8 THEN 8 ELSE 16
  ELSE IF cap * 8 > UMAX THEN -1                        \* checked_mul(8)?
  ELSE LET adj == (cap * 8) \div 7
       IN CHOOSE p \in Pows : p >= adj /\ (p = 1 \/ p \div 2 < adj)     \* next_power_of_two

(* bucket_mask_to_capacity :165 *)
\* @type: (Int) => Int;
CapOfMask(mask) == IF mask < 8 THEN mask ELSE ((mask + 1) \div 8) * 7

\* @type: (Int) => Int;
CtrlAlignL(ealign) == IF ealign > GW THEN ealign ELSE GW

(* TableLayout::calculate_layout_for :199 *)
\* @type: (Int, Int, Int) => { ok: Bool, len: Int, off: Int };
LayoutFor(size, calign, buckets) ==
  LET prod == size * buckets IN
  IF prod > UMAX THEN [ok |-> FALSE, len |-> 0, off |-> 0] ELSE                  \* size.checked_mul(buckets)?
  LET s1 == prod + (calign - 1) IN
  IF s1 > UMAX THEN [ok |-> FALSE, len |-> 0, off |-> 0] ELSE                    \* .checked_add(ctrl_align - 1)?
  LET off == s1 - (s1 % calign)                                                  \* & !(ctrl_align - 1)
      len == off + (buckets + GW) IN
  IF len > UMAX THEN [ok |-> FALSE, len |-> 0, off |-> 0] ELSE                   \* checked_add(buckets + WIDTH)?
  IF len > IMAX - (calign - 1) THEN [ok |-> FALSE, len |-> 0, off |-> 0]         \* isize::MAX guard
  ELSE [ok |-> TRUE, len |-> len, off |-> off]

---------------------------------------------------------------------------
(* C17 as state predicates over arbitrary inputs *)

\* @type: (Int, Int) => Bool;
BucketsOK(cap, size) ==
  LET b == C2B(cap, size)
  IN b /= -1 => /\ b \in Pows
                /\ CapOfMask(b - 1) >= cap              \* usable capacity at least the request
                /\ CapOfMask(b - 1) < b                 \* one slot always stays empty

\* @type: (Int, Int, Int) => Bool;
LayoutOK(size, ealign, buckets) ==
  LET ca == CtrlAlignL(ealign)
      r == LayoutFor(size, ca, buckets)
  IN r.ok => /\ r.off >= size * buckets                 \* room for every element
             /\ r.off % ca = 0                          \* aligned group scans
             /\ r.off % ealign = 0                      \* elements aligned
             /\ r.len = r.off + buckets + GW            \* all control bytes incl. the mirrored group
             /\ r.len + (ca - 1) <= IMAX                \* does not exceed isize::MAX after alignment padding
             /\ buckets + GW <= UMAX
             /\ r.off - buckets * size < ca             \* padding smaller than one alignment unit
=============================================================================
