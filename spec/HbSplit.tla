------------------------------- MODULE HbSplit -------------------------------
(***************************************************************************)
(* RawIterRange (src/raw/mod.rs:3384) as pure operators: a range is         *)
(*   [bits, base, next, end]  -- FULL offsets still to yield in the current  *)
(* group, index of that group, index of the next group, end of the range.   *)
(* `split` :3453 halves the remaining groups at a group boundary; the       *)
(* rayon producers (external_trait_impls/rayon/raw.rs) apply it along an    *)
(* arbitrary binary tree and consume every leaf with the checked `next`.    *)
(***************************************************************************)
EXTENDS Naturals, Integers, FiniteSets, Sequences

CONSTANT W
IsFullB(c) == c < 128
MinS(S) == CHOOSE x \in S : \A y \in S : x <= y

FullBits(c, ci) == {i \in 0..(W - 1) : IsFullB(c[ci + i])}
RangeNew(c, ci, len) == [bits |-> FullBits(c, ci), base |-> ci, next |-> ci + W, end |-> ci + len]

\* next_impl::<true> :3495 -- <<index or -1, range>>
RECURSIVE NextChecked(_, _)
NextChecked(c, r) ==
  IF r.bits # {} THEN <<r.base + MinS(r.bits), [r EXCEPT !.bits = r.bits \ {MinS(r.bits)}]>>
  ELSE IF r.next >= r.end THEN <<-1, r>>
  ELSE NextChecked(c, [r EXCEPT !.bits = FullBits(c, r.next), !.base = r.next, !.next = r.next + W])

RECURSIVE ConsumeAll(_, _, _)
ConsumeAll(c, r, acc) ==
  LET n == NextChecked(c, r) IN IF n[1] = -1 THEN acc ELSE ConsumeAll(c, n[2], Append(acc, n[1]))

RECURSIVE TakeN(_, _, _, _)
TakeN(c, r, k, acc) ==
  IF k = 0 THEN <<acc, r>>
  ELSE LET n == NextChecked(c, r) IN IF n[1] = -1 THEN <<acc, n[2]>> ELSE TakeN(c, n[2], k - 1, Append(acc, n[1]))

\* split :3453 -- <<head, tail or "none">>
CanSplit(r) == r.end > r.next
SplitRange(c, r) ==
  LET len == r.end - r.next
      mid == ((len \div 2) \div W) * W
  IN <<[r EXCEPT !.end = r.next + mid], RangeNew(c, r.next + mid, len - mid)>>

\* the split driver of the hook (verif_split_leaves): decisions in pre-order; 0 = leaf, 1 = split,
\* k >= 2 = yield k-1 elements first, then split.  Returns [leaves, pos].
RECURSIVE SplitRec(_, _, _, _)
SplitRec(c, r, dec, pos) ==
  LET d == IF pos <= Len(dec) THEN dec[pos] ELSE 0
      tk == IF d >= 2 THEN TakeN(c, r, d - 1, <<>>) ELSE <<<<>>, r>>
      pre == tk[1]
      r1 == tk[2]
  IN IF d = 0 THEN [leaves |-> <<ConsumeAll(c, r, <<>>)>>, pos |-> pos + 1]
     ELSE IF ~CanSplit(r1) THEN [leaves |-> <<ConsumeAll(c, r1, pre)>>, pos |-> pos + 1]
     ELSE LET sp == SplitRange(c, r1)
              L == SplitRec(c, sp[1], dec, pos + 1)
              Rr == SplitRec(c, sp[2], dec, L.pos)
          IN [leaves |-> (IF pre # <<>> THEN <<pre>> ELSE <<>>) \o L.leaves \o Rr.leaves, pos |-> Rr.pos]
Leaves(c, nb, dec) == SplitRec(c, RangeNew(c, 0, nb), dec, 1).leaves
=============================================================================
