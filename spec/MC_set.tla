------------------------------- MODULE MC_set -------------------------------
(***************************************************************************)
(* Exhaustive small-scope model of HashSet: the slot-level operations       *)
(* (replace / get_or_insert share find_or_find_insert_slot) and the         *)
(* assigning operators (^= toggles slots, |= inserts clones, -= switches    *)
(* strategy on relative size, &= retains) against a family of right-hand    *)
(* operands, in lockstep with mathematical sets of classes, under every     *)
(* hash plan of the plan set.                                               *)
(***************************************************************************)
EXTENDS HbSetOps, TLCExt, SequencesExt

CONSTANTS NK, Poss, Tags, Es, OpNames, MaxPa, TRem
Keys == 0..(NK - 1)
VARIABLES t, S, hp, chk
vars == <<t, S, hp, chk>>
Hashes == [pos : Poss, tag : Tags]
Ev(op, k) == [op |-> op, t |-> 1, u |-> 2, k |-> k, id |-> 0, v |-> 0, vid |-> 0, n |-> k, j |-> -1, ks |-> <<>>, r |-> <<>>, y |-> <<>>, pn |-> ""]

\* right-hand operands: tables built by inserting a set of classes in ascending order
RECURSIVE Build(_, _)
Build(tt, ks) == IF ks = <<>> THEN tt
                 ELSE Build(MapInsert(tt, Head(ks), 0, 0, 0, hp[Head(ks)], LawfulEnv, 0).t, Tail(ks))
Operand(C) == Build(Singleton(Es), SetToSortSeq(C, <))
ClsOf(x) == {x.data[i][1] : i \in FullIdx(x)}
\* start states: the unallocated set and, for every m in TRem, the set built LAWFULLY by inserting all classes and removing
\* classes 0..m-1 again (tombstone saturation: the next slot-level insertion rehashes in place with live elements)
RECURSIVE RunLawful(_, _, _)
RunLawful(tt, es, plan) == IF es = <<>> THEN tt ELSE RunLawful(SetOp(Head(es), tt, tt, plan, LawfulEnv).t, Tail(es), plan)
Template(plan, m) == RunLawful(Singleton(Es), [i \in 1..(NK + m) |-> IF i <= NK THEN Ev("insert", i - 1) ELSE Ev("remove", i - NK - 1)], plan)
Init == /\ hp \in [Keys -> Hashes]
        /\ t \in {Singleton(Es)} \cup {Template(hp, m) : m \in TRem}
        /\ S = ClsOf(t) /\ chk = TRUE
\* operands of the assigning operators: every subset of the classes, or a fixed family when the universe is large
Operands == IF NK <= 4 THEN SUBSET Keys ELSE {{}, {0}, {NK - 1}, {0, 1, NK - 1}, {k \in Keys : k % 2 = 0}, Keys}

Step(e, B) ==
  LET src == Operand(B)
      c == SetOp(e, t, src, hp, LawfulEnv)
      expS == CASE e.op \in {"insert", "replace", "get_or_insert", "get_or_insert_with"} -> S \cup {e.k}
                [] e.op \in {"remove", "take"} -> S \ {e.k}
                [] e.op = "xor_assign" -> (S \ B) \cup (B \ S)
                [] e.op = "or_assign" -> S \cup B
                [] e.op = "and_assign" -> S \cap B
                [] e.op = "sub_assign" -> S \ B
                [] e.op = "shrink_to_fit" -> S
                [] OTHER -> S
  IN /\ t' = c.t /\ S' = expS
     /\ chk' = (c.st = "ok")
     /\ UNCHANGED hp

Next ==
  \/ \E k \in Keys, op \in OpNames \cap {"insert", "remove", "replace", "get_or_insert", "take"} : Step(Ev(op, k), {})
  \/ \E op \in OpNames \cap {"xor_assign", "or_assign", "and_assign", "sub_assign"}, B \in Operands : Step(Ev(op, -1), B)
  \/ "shrink_to_fit" \in OpNames /\ Step(Ev("shrink_to_fit", -1), {})
Spec == Init /\ [][Next]_vars

(* C04 for HashSet: the hasher panics at its pa-th invocation inside the operation.  The set stays structurally valid with
   exact accounting and holds only classes it held before or was being given; a single-key operation that failed while
   growing leaves the bucket count unchanged.  (The assigning operators may have taken effect for a prefix of the operand; a panic during an in-place
   rehash drops the elements that had not been re-hashed yet, so old elements may be gone as well.) *)
FaultStep(e, B, pa) ==
  LET src == Operand(B)
      c == SetOp(e, t, src, hp, [pa |-> pa, hs |-> <<>>])
      C1 == ClsOf(c.t)
  IN /\ c.st = "unwound"
     /\ t' = c.t /\ S' = C1
     /\ chk' = /\ C1 \subseteq S \cup B \cup (IF e.k >= 0 THEN {e.k} ELSE {})
               /\ (e.op \notin {"xor_assign", "or_assign"} => (c.t.mask = t.mask /\ C1 \subseteq S))
               /\ Cardinality(C1) = c.t.items
     /\ UNCHANGED hp
FNext ==
  \/ Next
  \/ \E k \in Keys, pa \in 1..MaxPa, op \in OpNames \cap {"insert", "replace", "get_or_insert"} : FaultStep(Ev(op, k), {}, pa)
  \/ \E op \in OpNames \cap {"xor_assign", "or_assign"}, B \in Operands, pa \in 1..MaxPa : FaultStep(Ev(op, -1), B, pa)
  \/ \E pa \in 1..MaxPa : "shrink_to_fit" \in OpNames /\ FaultStep(Ev("shrink_to_fit", -1), {}, pa)
FSpec == Init /\ [][FNext]_vars

Inv == InvMap(t, TRUE)
Refines == ClsOf(t) = S /\ Cardinality(S) = t.items
ChkOK == chk
=============================================================================
