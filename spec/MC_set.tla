------------------------------- MODULE MC_set -------------------------------
(***************************************************************************)
(* Exhaustive small-scope model of HashSet: the slot-level operations       *)
(* (replace / get_or_insert share find_or_find_insert_slot) and the         *)
(* assigning operators (^= toggles slots, |= inserts clones, -= switches    *)
(* strategy on relative size, &= retains) against a family of right-hand    *)
(* operands, in lockstep with mathematical sets of classes, under every     *)
(* hash plan of the plan set.                                               *)
(***************************************************************************)
EXTENDS HbSetOps, TLCExt, SequencesExt

CONSTANTS NK, Poss, Tags, Es, OpNames, MaxPa
Keys == 0..(NK - 1)
VARIABLES t, S, hp, chk
vars == <<t, S, hp, chk>>
Hashes == [pos : Poss, tag : Tags]
Init == hp \in [Keys -> Hashes] /\ t = Singleton(Es) /\ S = {} /\ chk = TRUE

Ev(op, k) == [op |-> op, t |-> 1, u |-> 2, k |-> k, id |-> 0, v |-> 0, vid |-> 0, n |-> k, j |-> -1, ks |-> <<>>, r |-> <<>>, y |-> <<>>, pn |-> ""]

\* right-hand operands: tables built by inserting a set of classes in ascending order
RECURSIVE Build(_, _)
Build(tt, ks) == IF ks = <<>> THEN tt
                 ELSE Build(MapInsert(tt, Head(ks), 0, 0, 0, hp[Head(ks)], LawfulEnv, 0).t, Tail(ks))
Operand(C) == Build(Singleton(Es), SetToSortSeq(C, <))
ClsOf(x) == {x.data[i][1] : i \in FullIdx(x)}

Step(e, B) ==
  LET src == Operand(B)
      c == SetOp(e, t, src, hp, LawfulEnv)
      expS == CASE e.op \in {"insert", "replace", "get_or_insert", "get_or_insert_with"} -> S \cup {e.k}
                [] e.op \in {"remove", "take"} -> S \ {e.k}
                [] e.op = "xor_assign" -> (S \ B) \cup (B \ S)
                [] e.op = "or_assign" -> S \cup B
                [] e.op = "and_assign" -> S \cap B
                [] e.op = "sub_assign" -> S \ B
                [] e.op = "shrink_to_fit" -> S
                [] OTHER -> S
  IN /\ t' = c.t /\ S' = expS
     /\ chk' = (c.st = "ok")
     /\ UNCHANGED hp

Next ==
  \/ \E k \in Keys, op \in OpNames \cap {"insert", "remove", "replace", "get_or_insert", "take"} : Step(Ev(op, k), {})
  \/ \E op \in OpNames \cap {"xor_assign", "or_assign", "and_assign", "sub_assign"}, B \in SUBSET Keys : Step(Ev(op, -1), B)
  \/ "shrink_to_fit" \in OpNames /\ Step(Ev("shrink_to_fit", -1), {})
Spec == Init /\ [][Next]_vars

(* C04 for HashSet: the hasher panics at its pa-th invocation inside the operation.  The set stays structurally valid with
   exact accounting and holds only classes it held before or was being given; a single-key operation that failed while
   growing leaves the bucket count unchanged.  (The assigning operators may have taken effect for a prefix of the operand.) *)
FaultStep(e, B, pa) ==
  LET src == Operand(B)
      c == SetOp(e, t, src, hp, [pa |-> pa, hs |-> <<>>])
      C1 == ClsOf(c.t)
  IN /\ c.st = "unwound"
     /\ t' = c.t /\ S' = C1
     /\ chk' = /\ C1 \subseteq S \cup B \cup (IF e.k >= 0 THEN {e.k} ELSE {})
               /\ (e.op \notin {"xor_assign", "or_assign"} => (c.t.mask = t.mask /\ C1 \subseteq S))
               /\ (e.op = "or_assign" => S \subseteq C1)
               /\ Cardinality(C1) = c.t.items
     /\ UNCHANGED hp
FNext ==
  \/ Next
  \/ \E k \in Keys, pa \in 1..MaxPa, op \in OpNames \cap {"insert", "replace", "get_or_insert"} : FaultStep(Ev(op, k), {}, pa)
  \/ \E op \in OpNames \cap {"xor_assign", "or_assign"}, B \in SUBSET Keys, pa \in 1..MaxPa : FaultStep(Ev(op, -1), B, pa)
  \/ \E pa \in 1..MaxPa : "shrink_to_fit" \in OpNames /\ FaultStep(Ev("shrink_to_fit", -1), {}, pa)
FSpec == Init /\ [][FNext]_vars

Inv == InvMap(t, TRUE)
Refines == ClsOf(t) = S /\ Cardinality(S) = t.items
ChkOK == chk
=============================================================================
