------------------------------- MODULE MC_set -------------------------------
(***************************************************************************)
(* Exhaustive small-scope model of HashSet: the slot-level operations       *)
(* (replace / get_or_insert share find_or_find_insert_slot) and the         *)
(* assigning operators (^= toggles slots, |= inserts clones, -= switches    *)
(* strategy on relative size, &= retains) against a family of right-hand    *)
(* operands, in lockstep with mathematical sets of classes, under every     *)
(* hash plan of the plan set.                                               *)
(***************************************************************************)
EXTENDS HbSetOps, TLCExt, SequencesExt

CONSTANTS NK, Poss, Tags, Es, OpNames
Keys == 0..(NK - 1)
VARIABLES t, S, hp, chk
vars == <<t, S, hp, chk>>
Hashes == [pos : Poss, tag : Tags]
Init == hp \in [Keys -> Hashes] /\ t = Singleton(Es) /\ S = {} /\ chk = TRUE

Ev(op, k) == [op |-> op, t |-> 1, u |-> 2, k |-> k, id |-> 0, v |-> 0, vid |-> 0, n |-> k, j |-> -1, ks |-> <<>>, r |-> <<>>, y |-> <<>>, pn |-> ""]

\* right-hand operands: tables built by inserting a set of classes in ascending order
RECURSIVE Build(_, _)
Build(tt, ks) == IF ks = <<>> THEN tt
                 ELSE Build(MapInsert(tt, Head(ks), 0, 0, 0, hp[Head(ks)], LawfulEnv, 0).t, Tail(ks))
Operand(C) == Build(Singleton(Es), SetToSortSeq(C, <))
ClsOf(x) == {x.data[i][1] : i \in FullIdx(x)}

Step(e, B) ==
  LET src == Operand(B)
      c == SetOp(e, t, src, hp, LawfulEnv)
      expS == CASE e.op \in {"insert", "replace", "get_or_insert", "get_or_insert_with"} -> S \cup {e.k}
                [] e.op \in {"remove", "take"} -> S \ {e.k}
                [] e.op = "xor_assign" -> (S \ B) \cup (B \ S)
                [] e.op = "or_assign" -> S \cup B
                [] e.op = "and_assign" -> S \cap B
                [] e.op = "sub_assign" -> S \ B
                [] e.op = "shrink_to_fit" -> S
                [] OTHER -> S
  IN /\ t' = c.t /\ S' = expS
     /\ chk' = (c.st = "ok")
     /\ UNCHANGED hp

Next ==
  \/ \E k \in Keys, op \in OpNames \cap {"insert", "remove", "replace", "get_or_insert", "take"} : Step(Ev(op, k), {})
  \/ \E op \in OpNames \cap {"xor_assign", "or_assign", "and_assign", "sub_assign"}, B \in SUBSET Keys : Step(Ev(op, -1), B)
  \/ "shrink_to_fit" \in OpNames /\ Step(Ev("shrink_to_fit", -1), {})
Spec == Init /\ [][Next]_vars

Inv == InvMap(t, TRUE)
Refines == ClsOf(t) = S /\ Cardinality(S) = t.items
ChkOK == chk
=============================================================================
