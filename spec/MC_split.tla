------------------------------ MODULE MC_split ------------------------------
(* Every interleaving of split / yield-one over every occupancy pattern of a small table: each FULL bucket is delivered
   exactly once, nothing else is, no range yields out of bounds, ranges stay group aligned (C19, split-tree quantifier). *)
EXTENDS HbSplit, TLC
CONSTANT NB
VARIABLES ctrl, ranges, got
vars == <<ctrl, ranges, got>>
Patterns == [0..(NB - 1) -> {0, 255, 128}]
WithTail(p) == [i \in 0..(NB + W - 1) |-> IF i < NB THEN p[i] ELSE IF NB < W THEN 255 ELSE p[i - NB]]
Init == /\ \E p \in Patterns : ctrl = WithTail(p)
        /\ ranges = {RangeNew(ctrl, 0, NB)}
        /\ got = [i \in 0..(NB - 1) |-> 0]
Step(r) ==
  /\ r \in ranges
  /\ LET n == NextChecked(ctrl, r)
     IN IF n[1] = -1 THEN ranges' = ranges \ {r} /\ UNCHANGED got
        ELSE /\ n[1] \in 0..(NB - 1)
             /\ got' = [got EXCEPT ![n[1]] = @ + 1]
             /\ ranges' = (ranges \ {r}) \cup {n[2]}
  /\ UNCHANGED ctrl
Split(r) ==
  /\ r \in ranges /\ CanSplit(r)
  /\ LET sp == SplitRange(ctrl, r) IN ranges' = (ranges \ {r}) \cup {sp[1], sp[2]}
  /\ UNCHANGED <<ctrl, got>>
Next == \E r \in ranges : Step(r) \/ Split(r)
Spec == Init /\ [][Next]_vars
AtMostOnce == \A i \in 0..(NB - 1) : got[i] <= 1
OnlyFull == \A i \in 0..(NB - 1) : got[i] = 1 => IsFullB(ctrl[i])
Complete == ranges = {} => \A i \in 0..(NB - 1) : (got[i] = 1) <=> IsFullB(ctrl[i])
NoStuck == \A r \in ranges : r.bits # {} => r.base + MinS(r.bits) \in 0..(NB - 1)
GroupAligned == \A r \in ranges : r.next % W = 0 /\ (r.end % W = 0 \/ NB < W)
SplitInv == AtMostOnce /\ OnlyFull /\ Complete /\ NoStuck /\ GroupAligned
=============================================================================
