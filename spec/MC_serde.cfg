SPECIFICATION Spec
CONSTANTS
  W = 2
  NK = 3
  Poss = {0, 3}
  Tags = {0}
  Es = 8
  CAUT = 4
  Hints = {0, 1, 3, 4, 5, 40, 1000000}
  MaxLen = 3
INVARIANT SerdeInv
CHECK_DEADLOCK FALSE
