SPECIFICATION Spec
CONSTANTS
  W = 2
  NK = 4
  Poss = {0, 3}
  Tags = {0}
  OpNames = {"insert", "remove", "e_or_insert", "e_insert", "e_remove", "e_replace_none", "e_replace_some", "rc_or_insert", "rc_insert", "rc_remove", "rc_vacant_drop", "re_from_key_or_insert", "re_insert_hashed_nocheck", "re_remove", "e_occ_insert"}
  Vals = {1}
  KIds = {1}
  Es = 8
  MaxB = 16
  MaxPa = 0
  TRem = {}
  FixedPlan = 0
INVARIANTS Inv Refines LookupOK ChkOK CapacityOK Bounded
CHECK_DEADLOCK FALSE
