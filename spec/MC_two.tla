------------------------------- MODULE MC_two -------------------------------
(***************************************************************************)
(* Two tables with independent hash plans (C11, C04 for Clone panics):      *)
(* clone and clone_from over all ordered pairs (target state, source state) *)
(* of small-scope reachable states - source unallocated / same / different  *)
(* bucket count, targets with contents and tombstones - with the element    *)
(* Clone panicking at every index.  == is modelled as in map.rs (len equal  *)
(* and every pair found through the OTHER table's plan).                    *)
(***************************************************************************)
EXTENDS HbMapOps, TLCExt

CONSTANTS NK, Poss, Tags, Es, MaxPc, Vals
Keys == 0..(NK - 1)
VARIABLES a, b, A, B, hpa, hpb, chk
vars == <<a, b, A, B, hpa, hpb, chk>>
Hashes == [pos : Poss, tag : Tags]
Init == /\ hpa \in [Keys -> Hashes] /\ hpb \in [Keys -> Hashes]
        /\ a = Singleton(Es) /\ b = Singleton(Es) /\ A = {} /\ B = {} /\ chk = TRUE
Ev(op, k, v) == [op |-> op, t |-> 1, u |-> 2, k |-> k, id |-> 0, v |-> v, vid |-> 0, n |-> 0, j |-> -1, ks |-> <<>>, r |-> <<>>, y |-> <<>>, pn |-> ""]
KVs(S) == {<<x[1], x[3]>> : x \in S}
\* elements re-hashed under the target's plan when they are cloned into a table that keeps its own hasher? No: clone_from
\* copies the source's hasher as well (HashMap::clone_from), so the target adopts the source's plan.
OnA(e) == /\ a' = MapOp(e, a, hpa, LawfulEnv).t /\ A' = AbsMapOp(e, A, {}, hpa).A /\ UNCHANGED <<b, B, hpa, hpb>> /\ chk' = TRUE
OnB(e) == /\ b' = MapOp(e, b, hpb, LawfulEnv).t /\ B' = AbsMapOp(e, B, {}, hpb).A /\ UNCHANGED <<a, A, hpa, hpb>> /\ chk' = TRUE
CloneFromAB(pc) ==
  LET r == CloneFrom(a, b, pc)
  IN /\ a' = r.t
     /\ A' = Elems(r.t)
     /\ hpa' = IF r.st = "ok" THEN hpb ELSE hpa            \* the hasher is replaced only after all elements were cloned
     /\ chk' = /\ (r.st = "ok" => KVs(Elems(r.t)) = KVs(B) /\ r.t.mask = b.mask /\ r.t.gl = b.gl /\ r.t.items = b.items)
               /\ (r.st = "unwound" => Elems(r.t) = {} /\ r.made = r.undone)      \* no clone leaks, the target is empty and valid
     /\ UNCHANGED <<b, B, hpb>>
EqAB == \* HashMap == : len equal and every pair of a found in b through b's plan
  a.items = b.items /\ \A x \in Elems(a) : LET i == Find(b, x[1], hpb[x[1]]) IN i # -1 /\ b.data[i][3] = x[3]
Next ==
  \/ \E op \in {"insert", "remove"}, k \in Keys, v \in Vals : OnA(Ev(op, k, v)) \/ OnB(Ev(op, k, v))
  \/ \E pc \in 0..MaxPc : CloneFromAB(pc)
  \/ OnA(Ev("shrink_to_fit", -1, 0))
Spec == Init /\ [][Next]_vars

Inv == InvMap(a, TRUE) /\ InvMap(b, TRUE)
Refines == KVs(Elems(a)) = KVs(A) /\ KVs(Elems(b)) = KVs(B)
ChkOK == chk
EqOK == EqAB <=> (KVs(Elems(a)) = KVs(Elems(b)))
=============================================================================
