SPECIFICATION Spec
CONSTANTS
  W = 2
  NK = 3
  Poss = {0, 3}
  Tags = {0, 1}
  Es = 8
  MaxPa = 0
  TRem = {}
  OpNames = {"insert", "remove", "replace", "get_or_insert", "take", "xor_assign", "or_assign", "and_assign", "sub_assign", "shrink_to_fit"}
INVARIANTS Inv Refines ChkOK
CHECK_DEADLOCK FALSE
