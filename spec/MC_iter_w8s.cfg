SPECIFICATION Spec
CONSTANTS
  W = 8
  NB = 4
  Es = 8
INVARIANT IterInv
CHECK_DEADLOCK FALSE
