SPECIFICATION FSpec
CONSTANTS
  W = 2
  NK = 5
  Poss = {0}
  Tags = {0, 1}
  OpNames = {"insert", "remove", "reserve", "shrink_to_fit"}
  Vals = {1}
  KIds = {1}
  Es = 8
  MaxB = 32
  MaxPa = 4
  TRem = {}
  FixedPlan = 0
INVARIANTS Inv Refines LookupOK ChkOK CapacityOK
CHECK_DEADLOCK FALSE
