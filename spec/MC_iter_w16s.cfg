SPECIFICATION Spec
CONSTANTS
  W = 16
  NB = 8
  Es = 8
INVARIANT IterInv
CHECK_DEADLOCK FALSE
