------------------------------- MODULE MC_serde -------------------------------
(***************************************************************************)
(* HbSerde (src/external_trait_impls/serde.rs): deserialising a map is      *)
(*   with_capacity(cautious(hint)) ; insert every (key, value) in order ;   *)
(*   an input error at position j drops the partial collection;             *)
(* cautious(hint) = min(hint, CAUT) (CAUT = 4096 in the code; scaled here). *)
(* Exhaustive over input sequences with repeated keys, claimed size hints   *)
(* 0..HintMax (incl. "lying" ones) and every error position, under every    *)
(* hash plan: the result holds the last value of every key, the             *)
(* reservation made before reading is bounded by capacity_to_buckets(CAUT)  *)
(* whatever the hint claims, and serialising (iteration order) then         *)
(* deserialising reproduces the contents.                                   *)
(***************************************************************************)
EXTENDS HbMapOps, TLCExt, SequencesExt

CONSTANTS NK, Poss, Tags, Es, CAUT, Hints, MaxLen
Keys == 0..(NK - 1)
VARIABLES hp, input, hint, failAt, out
vars == <<hp, input, hint, failAt, out>>
Hashes == [pos : Poss, tag : Tags]
Items == Keys \X {1, 2}
Inputs == UNION {[1..n -> Items] : n \in 0..MaxLen}

Cautious(h) == IF h < CAUT THEN h ELSE CAUT
RECURSIVE InsertAll(_, _, _)
InsertAll(tt, s, i) == IF i > Len(s) THEN tt ELSE InsertAll(MapInsert(tt, s[i][1], 0, s[i][2], 0, hp[s[i][1]], LawfulEnv, 0).t, s, i + 1)
\* [t |-> table or "dropped", first |-> the table right after the reservation]
Deserialize(s, h, f) ==
  LET t0 == WithCapacity(Cautious(h), Es)
      upto == IF f = 0 THEN s ELSE SubSeq(s, 1, f - 1)
  IN [t |-> InsertAll(t0, upto, 1), ok |-> f = 0, first |-> t0]
LastWinsOf(s) == {s[i] : i \in {q \in 1..Len(s) : \A r \in (q + 1)..Len(s) : s[r][1] # s[q][1]}}
KVOf(tt) == {<<x[1], x[3]>> : x \in Elems(tt)}
\* serialisation order = ascending bucket order of the table
Serialized(tt) == LET a == AscFull(tt) IN [i \in 1..Len(a) |-> <<tt.data[a[i]][1], tt.data[a[i]][3]>>]

Init == /\ hp \in [Keys -> Hashes] /\ input \in Inputs /\ hint \in Hints
        /\ failAt \in 0..(MaxLen + 1) /\ (failAt # 0 => failAt <= Len(input) + 1)
        /\ out = Deserialize(input, hint, failAt)
Next == UNCHANGED vars
Spec == Init /\ [][Next]_vars

ResultOK == out.ok => (KVOf(out.t) = LastWinsOf(input) /\ InvMap(out.t, TRUE))
PartialOK == ~out.ok => (KVOf(out.t) = LastWinsOf(SubSeq(input, 1, failAt - 1)) /\ InvMap(out.t, TRUE))   \* what is then dropped as a whole
BoundedReservation == out.first.mask + 1 <= (IF CAUT = 0 THEN 1 ELSE CapToBuckets(CAUT, Es))
RoundTrip == out.ok => KVOf(Deserialize(Serialized(out.t), out.t.items, 0).t) = KVOf(out.t)
SerdeInv == ResultOK /\ PartialOK /\ BoundedReservation /\ RoundTrip
=============================================================================
