SPECIFICATION Spec
CONSTANTS
  W = 2
  NK = 2
  HashCodes = {0, 30, 31}
  OpNames = {"insert", "remove", "e_or_insert"}
  Es = 8
  MaxId = 3
  MaxB = 32
  TK = 7
  TRem = {4, 5}
INVARIANTS Safe ChkOK Bounded
CHECK_DEADLOCK FALSE
