---------------------------- MODULE HbLayoutTrace ----------------------------
(* Validates values recorded from the real capacity / layout / probe arithmetic (harness `layout`, values below
   2^30) against HbLayout.  One record per step; the first mismatch is reported. *)
EXTENDS Integers, Sequences, FiniteSets, TLC, TLCExt, Json, IOUtils, SequencesExt

CONSTANT W
Rec == ndJsonDeserialize(IOEnv.TRACE)
PROP == IF "PROP" \in DOMAIN IOEnv THEN IOEnv.PROP ELSE "ALL"

\* TLC integers are 32-bit: records reach this module only if every intermediate value stays below 2^30,
\* where the 31-bit instance agrees with the 64-bit one (larger values are validated by Apalache)
L == INSTANCE HbLayout WITH UMAX <- 2147483647, IMAX <- 1073741823, GW <- W, BITS <- 31

VARIABLE l
ProbePos(start, j, mask) == (start + W * ((j * (j + 1)) \div 2)) % (mask + 1)

RecOK(o) ==
  CASE o.f = "c2b" -> L!C2B(o.a, o.size) = o.v /\ L!C2B(o.b, o.size) = o.v
                      /\ L!BucketsOK(o.a, o.size) /\ L!BucketsOK(o.b, o.size)
    [] o.f = "cap" -> L!CapOfMask(o.mask) = o.v
    [] o.f = "lay" -> LET r == L!LayoutFor(o.size, L!CtrlAlignL(o.ea), o.buckets)
                      IN /\ (r.ok <=> o.ok = 1)
                         /\ (r.ok => r.len = o.len /\ r.off = o.off /\ o.align = L!CtrlAlignL(o.ea) /\ L!LayoutOK(o.size, o.ea, o.buckets))
    [] o.f = "tl" -> o.tsize = o.size /\ o.ctrl_align = L!CtrlAlignL(o.ea)
    [] o.f = "probe" -> /\ o.perm = 1
                        /\ \A j \in 1..Len(o.ps) : o.ps[j] = ProbePos(o.start % (o.mask + 1), j - 1, o.mask)
    [] OTHER -> FALSE

Init == l = 1 /\ TLCSet(43, <<>>) /\ TLCSet(44, 0)
Next == /\ l <= Len(Rec) /\ TLCGet(43) = <<>> /\ l' = l + 1
        /\ IF RecOK(Rec[l]) THEN TLCSet(44, TLCGet(44) + 1) ELSE TLCSet(43, <<l, Rec[l].f>>)
Spec == Init /\ [][Next]_l

Accepted ==
  LET rej == TLCGet(43)
      res == [steps |-> TLCGet(44), lines |-> Len(Rec), drift |-> 0, foreign |-> 0, firstdrift |-> <<>>, firstforeign |-> <<>>,
              rejected |-> IF rej # <<>> THEN 1 ELSE 0, line |-> IF rej # <<>> THEN rej[1] ELSE Len(Rec) + 1,
              reasons |-> IF rej # <<>> THEN <<"recorded " \o rej[2] \o " value differs from HbLayout">> ELSE <<>>]
  IN PrintT("HBVRESULT " \o ToJson(res)) /\ rej = <<>>
=============================================================================
