---------------------------- MODULE HbLayoutTrace ----------------------------
(* Validates values recorded from the real capacity / layout / probe arithmetic (harness `layout`, values below
   2^30) against HbLayout.  One record per step; the first mismatch is reported. *)
EXTENDS Integers, Sequences, FiniteSets, TLC, TLCExt, Json, IOUtils, SequencesExt

CONSTANT W
Rec == ndJsonDeserialize(IOEnv.TRACE)
PROP == IF "PROP" \in DOMAIN IOEnv THEN IOEnv.PROP ELSE "ALL"

\* TLC integers are 32-bit: records reach this module only if every intermediate value stays below 2^30,
\* where the 31-bit instance agrees with the 64-bit one (larger values are validated by Apalache)
L == INSTANCE HbLayout WITH UMAX <- 2147483647, IMAX <- 1073741823, GW <- W, BITS <- 31

VARIABLE l
ProbePos(start, j, mask) == (start + W * ((j * (j + 1)) \div 2)) % (mask + 1)

\* STRICT: the recorded value equals the specification's arithmetic (policy included)
RecStrict(o) ==
  CASE o.f = "c2b" -> L!C2B(o.a, o.size) = o.v /\ L!C2B(o.b, o.size) = o.v /\ (o.v # -1 => L!CapOfMask(o.v - 1) = o.cm)
    [] o.f = "cap" -> L!CapOfMask(o.mask) = o.v
    [] o.f = "lay" -> LET r == L!LayoutFor(o.size, L!CtrlAlignL(o.ea), o.buckets)
                      IN (r.ok <=> o.ok = 1) /\ (r.ok => r.len = o.len /\ r.off = o.off /\ o.align = L!CtrlAlignL(o.ea))
    [] o.f = "tl" -> o.tsize = o.size /\ o.ctrl_align = L!CtrlAlignL(o.ea)
    [] o.f = "probe" -> \A j \in 1..Len(o.ps) : o.ps[j] = ProbePos(o.start % (o.mask + 1), j - 1, o.mask)
    [] OTHER -> FALSE
\* PROPERTY: what C17 states, whatever the load-factor / padding policy
IsPow2L(x) == x \in L!Pows
RecProp(o) ==
  CASE o.f = "c2b" -> o.v = -1 \/ (IsPow2L(o.v) /\ o.cm >= o.b /\ o.cm < o.v)        \* capacity >= every request of the interval, < buckets
    [] o.f = "cap" -> o.v <= o.mask /\ (o.mask > 0 => o.v < o.mask + 1)
    [] o.f = "lay" -> o.ok = 1 =>
                        /\ o.off >= o.size * o.buckets /\ o.off % o.align = 0 /\ o.off % o.ea = 0
                        /\ o.len >= o.off + o.buckets + W /\ o.align >= o.ea /\ o.align >= W /\ IsPow2L(o.align)
    [] o.f = "tl" -> o.tsize = o.size /\ o.ctrl_align >= o.ea /\ o.ctrl_align >= W
    [] o.f = "probe" -> o.perm = 1                                                       \* every group exactly once
    [] OTHER -> FALSE

Init == l = 1 /\ TLCSet(42, 0) /\ TLCSet(43, <<>>) /\ TLCSet(44, 0) /\ TLCSet(45, <<>>)
Next == /\ l <= Len(Rec) /\ TLCGet(43) = <<>> /\ l' = l + 1
        /\ IF RecProp(Rec[l])
           THEN /\ TLCSet(44, TLCGet(44) + 1)
                /\ IF RecStrict(Rec[l]) THEN TRUE ELSE TLCSet(42, TLCGet(42) + 1) /\ (IF TLCGet(45) = <<>> THEN TLCSet(45, <<l, Rec[l].f>>) ELSE TRUE)
           ELSE TLCSet(43, <<l, Rec[l].f>>)
Spec == Init /\ [][Next]_l

Accepted ==
  LET rej == TLCGet(43)
      res == [steps |-> TLCGet(44), lines |-> Len(Rec), drift |-> TLCGet(42), foreign |-> 0,
              firstdrift |-> IF TLCGet(45) = <<>> THEN <<>> ELSE <<ToString(TLCGet(45)[1]), TLCGet(45)[2]>>, firstforeign |-> <<>>,
              rejected |-> IF rej # <<>> THEN 1 ELSE 0, line |-> IF rej # <<>> THEN rej[1] ELSE Len(Rec) + 1,
              reasons |-> IF rej # <<>> THEN <<"recorded " \o rej[2] \o " value violates the C17 statement">> ELSE <<>>]
  IN PrintT("HBVRESULT " \o ToJson(res)) /\ rej = <<>>
=============================================================================
