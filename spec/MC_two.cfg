SPECIFICATION Spec
CONSTANTS
  W = 2
  NK = 2
  Poss = {0, 3}
  Tags = {0}
  Es = 8
  MaxPc = 2
  Vals = {1}
INVARIANTS Inv Refines ChkOK EqOK
CHECK_DEADLOCK FALSE
