SPECIFICATION Spec
CONSTANTS
  BITS = 9
  GW = 8
INVARIANTS BucketsInv MonoInv LayoutInv ProbeInv
CHECK_DEADLOCK FALSE
