------------------------------ MODULE HbSetOps ------------------------------
(***************************************************************************)
(* SetSpec (abstract HashSet semantics incl. set algebra) and HbSet (the    *)
(* HashSet API composed from the raw operators as in src/set.rs).          *)
(* A set element is the tuple <<class, id, 0, 0, pos, tag>>; HashSet<T> is  *)
(* HashMap<T, ()>, so every operation not listed here falls through to     *)
(* the map operators.                                                      *)
(***************************************************************************)
EXTENDS HbMapOps

Cls(A) == {x[1] : x \in A}
SetId(x, id) == <<x[1], id, x[3], x[4], x[5], x[6]>>

\* size_hint pairs <<lo, hi>> (hi = -1 for None) logged before every next(); total = true number of results
BoundsOK(r, total) ==
  /\ Len(r) % 2 = 0
  /\ \A i \in 1..(Len(r) \div 2) :
        LET rem == IF total - (i - 1) > 0 THEN total - (i - 1) ELSE 0
        IN r[2*i - 1] <= rem /\ (r[2*i] = -1 \/ r[2*i] >= rem)

\* results of a lazy set-algebra iterator: each expected class exactly once, every yielded element is a
\* stored element of one of the operands allowed to supply it
AlgOK(e, U, From) ==
  /\ Len(e.y) = Cardinality(U)
  /\ {y[1] : y \in SeqToSet(e.y)} = U
  /\ \A y \in SeqToSet(e.y) : \E x \in From : x[1] = y[1] /\ x[2] = y[2]
  /\ BoundsOK(e.r, Cardinality(U))
  /\ Len(e.r) = 2 * (Cardinality(U) + 1)
  /\ e.pn = ""

ParAlgOK(e, U, From) ==
  /\ Len(e.y) = Cardinality(U)
  /\ {y[1] : y \in SeqToSet(e.y)} = U
  /\ \A y \in SeqToSet(e.y) : \E x \in From : x[1] = y[1] /\ x[2] = y[2]
  /\ e.pn = ""

RECURSIVE AbsSetExtend(_, _, _, _)
AbsSetExtend(A, ys, ph, dr) ==
  IF ys = <<>> THEN [A |-> A, dr |-> dr]
  ELSE LET y == Head(ys)
       IN IF Has(A, y[1]) THEN AbsSetExtend(A, Tail(ys), ph, dr \cup {y[2]})
          ELSE AbsSetExtend(A \cup {MkElem(y[1], y[2], 0, 0, ph[y[1]])}, Tail(ys), ph, dr)

AbsSetOp(e, A, B, ph) ==
  LET k == e.k
      P == Has(A, k)
      x == IF P THEN Get(A, k) ELSE NoElem
      h == IF k >= 0 THEN ph[k] ELSE [pos |-> 0, tag |-> 0]
      ne == MkElem(k, e.id, 0, 0, h)
      same(r) == AR(A, {}, e.r = r /\ e.pn = "")
      b(c) == IF c THEN 1 ELSE 0
  IN
  CASE e.op = "insert" -> IF P THEN AR(A, {e.id}, e.r = <<0>> /\ e.pn = "") ELSE AR(A \cup {ne}, {}, e.r = <<1>> /\ e.pn = "")
    \* replace stores the NEW value and returns the old one
    [] e.op = "replace" -> IF P THEN AR((A \ {x}) \cup {SetId(x, e.id)}, {}, e.r = <<x[2]>> /\ e.pn = "")
                           ELSE AR(A \cup {ne}, {}, e.r = <<-1>> /\ e.pn = "")
    [] e.op = "take" -> IF P THEN AR(A \ {x}, {}, e.r = <<x[2]>> /\ e.pn = "") ELSE same(<<-1>>)
    [] e.op = "get" -> same(IF P THEN <<x[2]>> ELSE <<-1>>)
    [] e.op = "remove" -> IF P THEN AR(A \ {x}, {x[2]}, e.r = <<1>> /\ e.pn = "") ELSE same(<<0>>)
    \* get_or_insert keeps the OLD value
    [] e.op = "get_or_insert" -> IF P THEN AR(A, {e.id}, e.r = <<x[2]>> /\ e.pn = "")
                                 ELSE AR(A \cup {ne}, {}, e.r = <<e.id>> /\ e.pn = "")
    \* get_or_insert_with refuses (panics) to store a value that is not equivalent to the probe
    [] e.op = "get_or_insert_with" ->
         IF P THEN AR(A, {}, e.r = <<x[2]>> /\ e.pn = "" /\ e.id = 0)
         ELSE IF e.n = k THEN AR(A \cup {ne}, {}, e.r = <<e.id>> /\ e.pn = "")
         ELSE AR(A, {e.id}, e.pn = "noteq")
    [] e.op = "s_entry_insert" -> IF P THEN AR(A, {e.id}, e.r = <<1, x[2]>> /\ e.pn = "")
                                  ELSE AR(A \cup {ne}, {}, e.r = <<0, e.id>> /\ e.pn = "")
    [] e.op = "s_entry_or_insert" -> IF P THEN AR(A, {e.id}, e.r = <<1, -1>> /\ e.pn = "")
                                     ELSE AR(A \cup {ne}, {}, e.r = <<0, -1>> /\ e.pn = "")
    [] e.op = "s_entry_remove" -> IF P THEN AR(A \ {x}, {e.id}, e.r = <<1, x[2]>> /\ e.pn = "")
                                  ELSE AR(A, {e.id}, e.r = <<0, e.id>> /\ e.pn = "")
    [] e.op = "s_entry_get" -> AR(A, {e.id}, e.r = (IF P THEN <<1, x[2]>> ELSE <<0, e.id>>) /\ e.pn = "")
    [] e.op = "s_entry_into_value" -> IF P THEN AR(A, {e.id}, e.r = <<1, x[2]>> /\ e.pn = "")
                                      ELSE AR(A, {}, e.r = <<0, e.id>> /\ e.pn = "")
    [] e.op = "extend" -> LET r == AbsSetExtend(A, e.y, ph, {}) IN AR(r.A, r.dr, e.pn = "")
    [] e.op = "is_subset" -> same(<<b(Cls(A) \subseteq Cls(B))>>)
    [] e.op = "is_superset" -> same(<<b(Cls(B) \subseteq Cls(A))>>)
    [] e.op = "is_disjoint" -> same(<<b(Cls(A) \cap Cls(B) = {})>>)
    [] e.op = "eq" -> same(<<b(Cls(A) = Cls(B)), b(Cls(A) = Cls(B))>>)
    [] e.op = "union" -> AR(A, {}, AlgOK(e, Cls(A) \cup Cls(B), A \cup B))
    [] e.op = "intersection" -> AR(A, {}, AlgOK(e, Cls(A) \cap Cls(B), A \cup B))
    [] e.op = "difference" -> AR(A, {}, AlgOK(e, Cls(A) \ Cls(B), A))
    [] e.op = "symmetric_difference" ->
         AR(A, {}, AlgOK(e, (Cls(A) \ Cls(B)) \cup (Cls(B) \ Cls(A)), {z \in A : z[1] \notin Cls(B)} \cup {z \in B : z[1] \notin Cls(A)}))
    [] e.op = "par_is_subset" -> same(<<b(Cls(A) \subseteq Cls(B))>>)
    [] e.op = "par_is_superset" -> same(<<b(Cls(B) \subseteq Cls(A))>>)
    [] e.op = "par_is_disjoint" -> same(<<b(Cls(A) \cap Cls(B) = {})>>)
    [] e.op = "par_union" -> AR(A, {}, ParAlgOK(e, Cls(A) \cup Cls(B), A \cup B))
    [] e.op = "par_intersection" -> AR(A, {}, ParAlgOK(e, Cls(A) \cap Cls(B), A \cup B))
    [] e.op = "par_difference" -> AR(A, {}, ParAlgOK(e, Cls(A) \ Cls(B), A))
    [] e.op = "par_symmetric_difference" ->
         AR(A, {}, ParAlgOK(e, (Cls(A) \ Cls(B)) \cup (Cls(B) \ Cls(A)), {z \in A : z[1] \notin Cls(B)} \cup {z \in B : z[1] \notin Cls(A)}))
    \* assigning forms that only remove: exact
    [] e.op = "and_assign" ->
         LET gone == {z \in A : z[1] \notin Cls(B)} IN AR(A \ gone, {z[2] : z \in gone}, e.pn = "")
    [] e.op = "sub_assign" ->
         LET gone == {z \in A : z[1] \in Cls(B)} IN AR(A \ gone, {z[2] : z \in gone}, e.pn = "")
    [] OTHER -> AbsMapOp(e, A, B, ph)

---------------------------------------------------------------------------
(* concrete composition *)

\* replace / get_or_insert / get_or_insert_with: hash, find_or_find_insert_slot (reserve(1) first)
SetSlotOp(t, k, id, h, replaceKey, env) ==
  IF Panics(env, 1) THEN R(t, 1, "unwound", {})
  ELSE LET rf == ReserveThenFoFis(t, k, h, env, 1)
       IN IF rf.r.st # "ok" THEN rf.r
          ELSE IF rf.f[1] THEN R(IF replaceKey THEN [rf.r.t EXCEPT !.data[rf.f[2]] = SetId(rf.r.t.data[rf.f[2]], id)] ELSE rf.r.t, rf.r.n, "ok", {})
          ELSE R(InsertInSlot(rf.r.t, rf.f[2], MkElem(k, id, 0, 0, h)), rf.r.n, "ok", {})

\* ^=: for every item of rhs (ascending bucket order): find_or_find_insert_slot; found => remove, else insert_in_slot(clone)
RECURSIVE XorLoop(_, _, _, _, _, _)
XorLoop(t, src, idxs, ph, env, n) ==
  IF idxs = <<>> THEN R(t, n, "ok", {})
  ELSE LET el == src.data[Head(idxs)]
           k == el[1]
           rf == ReserveThenFoFis(t, k, ph[k], env, n + 1)
       IN IF rf.r.st # "ok" THEN rf.r
          ELSE XorLoop(IF rf.f[1] THEN EraseAt(rf.r.t, rf.f[2]) ELSE InsertInSlot(rf.r.t, rf.f[2], MkElem(k, 0, 0, 0, ph[k])),
                       src, Tail(idxs), ph, env, rf.r.n)
\* |=: for every item of rhs: contains, then insert(clone)
RECURSIVE OrLoop(_, _, _, _, _, _)
OrLoop(t, src, idxs, ph, env, n) ==
  IF idxs = <<>> THEN R(t, n, "ok", {})
  ELSE LET el == src.data[Head(idxs)]
           k == el[1]
       IN IF t.items # 0 /\ Find(t, k, ph[k]) # -1 THEN OrLoop(t, src, Tail(idxs), ph, env, n)
          ELSE LET r == MapInsert(t, k, 0, 0, 0, ph[k], env, n)
               IN IF r.st # "ok" THEN r ELSE OrLoop(r.t, src, Tail(idxs), ph, env, r.n)
\* -= with rhs smaller: remove every item of rhs
RECURSIVE SubLoop(_, _, _, _)
SubLoop(t, src, idxs, ph) ==
  IF idxs = <<>> THEN t
  ELSE LET k == src.data[Head(idxs)][1]
           i == Find(t, k, ph[k])
       IN SubLoop(IF i = -1 THEN t ELSE EraseAt(t, i), src, Tail(idxs), ph)

SetOp(e, t, src, ph, env) ==
  LET k == e.k
      h == IF k >= 0 THEN ph[k] ELSE [pos |-> 0, tag |-> 0]
      clsB == {src.data[i][1] : i \in FullIdx(src)}
  IN
  CASE e.op = "replace" -> SetSlotOp(t, k, e.id, h, TRUE, env)
    [] e.op = "get_or_insert" -> SetSlotOp(t, k, e.id, h, FALSE, env)
    [] e.op = "get_or_insert_with" ->
         IF e.pn = "noteq" THEN Reserve(t, 1, env, 1) ELSE SetSlotOp(t, k, e.id, h, FALSE, env)
    [] e.op = "take" -> MapOp([e EXCEPT !.op = "remove"], t, ph, env)
    [] e.op = "s_entry_insert" -> MapOp([e EXCEPT !.op = "e_insert"], t, ph, env)
    [] e.op = "s_entry_or_insert" -> MapOp([e EXCEPT !.op = "e_or_insert"], t, ph, env)
    [] e.op = "s_entry_remove" -> MapOp([e EXCEPT !.op = "e_remove"], t, ph, env)
    [] e.op \in {"s_entry_get", "s_entry_into_value"} -> MapOp([e EXCEPT !.op = "e_vacant_drop"], t, ph, env)
    [] e.op = "extend" ->
         LET ys == [i \in 1..Len(e.y) |-> <<e.y[i][1], e.y[i][2], 0, 0>>]
         IN MapOp([e EXCEPT !.y = ys], t, ph, env)
    [] e.op = "xor_assign" -> XorLoop(t, src, AscFull(src), ph, env, 0)
    [] e.op = "or_assign" -> OrLoop(t, src, AscFull(src), ph, env, 0)
    [] e.op = "and_assign" ->
         R(EraseSeq(t, AscFull(t), {i \in FullIdx(t) : t.data[i][1] \in clsB}), 0, "ok", {})
    [] e.op = "sub_assign" ->
         IF src.items < t.items THEN R(SubLoop(t, src, AscFull(src), ph), 0, "ok", {})
         ELSE R(EraseSeq(t, AscFull(t), {i \in FullIdx(t) : t.data[i][1] \notin clsB}), 0, "ok", {})
    [] e.op \in {"is_subset", "is_superset", "is_disjoint", "union", "intersection", "difference", "symmetric_difference",
                 "par_is_subset", "par_is_superset", "par_is_disjoint", "par_union", "par_intersection", "par_difference",
                 "par_symmetric_difference", "par_eq"} ->
         R(t, 0, "ok", {})
    [] OTHER -> MapOp(e, t, ph, env)
=============================================================================
