SPECIFICATION Spec
CONSTANTS
  W = 2
  NK = 7
  Poss = {0}
  Tags = {0}
  OpNames = {"e_or_insert", "e_insert", "rc_or_insert", "re_from_key_or_insert", "re_insert_hashed_nocheck", "e_remove", "e_replace_none", "try_insert"}
  Vals = {1}
  KIds = {1}
  Es = 8
  MaxB = 32
  MaxPa = 0
  TRem = {5}
  FixedPlan = 0
INVARIANTS Inv Refines LookupOK ChkOK CapacityOK
CHECK_DEADLOCK FALSE
