SPECIFICATION Spec
CONSTANTS
  W = 8
  NB = 4
INVARIANT SplitInv
CHECK_DEADLOCK FALSE
