------------------------------ MODULE MC_chaos ------------------------------
(***************************************************************************)
(* C05: a hasher that answers DIFFERENTLY ON EVERY CALL.  Every hasher      *)
(* invocation of an operation - the hash of the key of the call and every  *)
(* re-hash made while the table grows or is rehashed in place - receives   *)
(* an arbitrary answer (the environment oracle env.hs of HbCore), so TLC    *)
(* explores, for every reachable table and every operation, ALL sequences  *)
(* of answers.  Lookup results are unspecified; what is checked:            *)
(*   * the operation completes (no abort path of the specification),        *)
(*   * the safety subset of the invariant - exactly what the unsafe code    *)
(*     relies on: shape, mirror bytes, items = #FULL, an EMPTY bucket       *)
(*     exists, growth_left accounting, FULL <=> slot initialised,           *)
(*   * no element is stored twice, none appears from nowhere, none that a   *)
(*     scope guard dropped is still stored (exactly-once drops of the real   *)
(*     collections are followed by identity on recorded executions).         *)
(* Equality stays lawful here (unlawful Eq is covered by recorded           *)
(* executions only); identities are fresh per insertion, bounded by MaxId.  *)
(***************************************************************************)
EXTENDS HbMapOps, TLCExt, SequencesExt

CONSTANTS NK, HashCodes, OpNames, Es, MaxId, MaxB,
          TK, TRem     \* template tables: TK lawful insertions, then m removals for every m in TRem

Keys == 0..(NK - 1)
VARIABLES t, nid, chk
vars == <<t, nid, chk>>

Hashes == {[pos |-> c \div 10, tag |-> c % 10] : c \in HashCodes}      \* the answers the hasher may give (code = 10 * pos + tag)
\* start states: the unallocated table, and tables built LAWFULLY (classes 10.., identities 10..) that are at full load or
\* saturated with tombstones, so that growth and the in-place rehash run under arbitrary answers within a few steps
TPlan == [k \in 10..(10 + TK - 1) |-> [pos |-> 0, tag |-> k % 2]]
RECURSIVE RunLawful(_, _)
RunLawful(tt, es) == IF es = <<>> THEN tt ELSE RunLawful(MapOp(Head(es), tt, TPlan, LawfulEnv).t, Tail(es))
TEv(op, k) == [op |-> op, t |-> 1, u |-> 0, k |-> k, id |-> k, v |-> 1, vid |-> 0, n |-> 0, j |-> -1, ks |-> <<>>, r |-> <<>>, y |-> <<>>, pn |-> ""]
Full == RunLawful(Singleton(Es), [i \in 1..TK |-> TEv("insert", 9 + i)])
Templates == {Singleton(Es)} \cup {RunLawful(Full, [i \in 1..m |-> TEv("remove", 9 + i)]) : m \in TRem}
Init == t \in Templates /\ nid = 1 /\ chk = TRUE

Ev(op, k, id, n) ==
  [op |-> op, t |-> 1, u |-> 0, k |-> k, id |-> id, v |-> 1, vid |-> 0, n |-> n, j |-> -1, ks |-> <<>>, r |-> <<>>, y |-> <<>>, pn |-> ""]

\* number of hasher invocations the operation can make: the key of the call, plus one per stored element when it may rehash
NeedL(e) == IF e.op \in {"reserve", "shrink_to_fit", "shrink_to"} \/ t.gl = 0 THEN t.items + 1 ELSE 1

Step(e, inserts) ==
  \E hs \in [1..NeedL(e) -> Hashes] :
    LET c == MapOp(e, t, [k \in {e.k} |-> hs[1]], [pa |-> 0, hs |-> hs])
        before == AllIds(Elems(t)) \cup (IF inserts THEN {e.id} ELSE {})
        after == AllIds(Elems(c.t))
    IN /\ t' = c.t
       /\ nid' = IF inserts THEN nid + 1 ELSE nid
       /\ chk' = /\ c.st = "ok"
                 /\ after \cap c.dr = {}                       \* nothing that is still stored was dropped by a guard
                 /\ after \subseteq before                     \* nothing appeared from nowhere
                 /\ Cardinality(after) = c.t.items             \* no element is stored twice

InsOps == OpNames \cap {"insert", "e_or_insert", "rc_or_insert", "e_insert", "try_insert", "re_from_key_or_insert"}
KeyOps == OpNames \cap {"remove", "e_remove", "get_mut", "rc_remove", "e_replace_none"}
RemKeys == Keys \cup {10 + TK - 1}       \* a key of the template can be removed as well
NumOps == OpNames \cap {"reserve", "shrink_to"}
PlainOps == OpNames \cap {"clear", "shrink_to_fit"}

Next ==
  \/ \E op \in InsOps, k \in Keys : nid <= MaxId /\ Step(Ev(op, k, nid, 0), TRUE)
  \/ \E op \in KeyOps, k \in RemKeys : Step(Ev(op, k, 0, 0), FALSE)
  \/ \E op \in NumOps, n \in {1, NK} : Step(Ev(op, -1, 0, n), FALSE)
  \/ \E op \in PlainOps : Step(Ev(op, -1, 0, 0), FALSE)

Spec == Init /\ [][Next]_vars

Safe == InvSafe(t) /\ I5(t, TRUE)
ChkOK == chk
Bounded == t.mask + 1 <= MaxB
=============================================================================
