SPECIFICATION Spec
CONSTANTS
  W = 4
  NB = 8
INVARIANT SplitInv
CHECK_DEADLOCK FALSE
