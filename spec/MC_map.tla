------------------------------- MODULE MC_map -------------------------------
(***************************************************************************)
(* Exhaustive small-scope model of HashMap: every sequence of the chosen   *)
(* operations over a small key universe under EVERY hash plan of the plan  *)
(* set, with the concrete table (HbMapOps over HbCore) running in lockstep *)
(* with the abstract map (HbMapAbs).  Checked on every reachable state:    *)
(* the structural invariant with exact growth accounting, refinement       *)
(* (contents and every possible lookup), the capacity contract and the     *)
(* no-allocation-while-room rule, and boundedness of the table under       *)
(* churn (the state space is finite only if growth is bounded).            *)
(***************************************************************************)
EXTENDS HbMapOps, TLCExt, SequencesExt

CONSTANTS NK,        \* keys are 0..NK-1
          Poss,      \* positions a plan may assign
          Tags,      \* tags a plan may assign
          OpNames,   \* operations explored
          Vals, KIds, \* values and key identities used by inserting operations
          Es,        \* element size (selects the minimum table size)
          MaxB,      \* bound on buckets claimed by the boundedness invariant
          MaxPa,     \* hasher panics are injected at invocation 1..MaxPa of every operation (0 = none)
          TRem,      \* template start states (see Init); {} = only the unallocated table
          FixedPlan  \* 0 = all hash plans over Poss x Tags; n > 0 = one spread-and-collide plan (see PlanSet)

Keys == 0..(NK - 1)
VARIABLES t, A, hp, chk
vars == <<t, A, hp, chk>>

Hashes == [pos : Poss, tag : Tags]
\* start states: the unallocated table and, for every m in TRem, the table obtained LAWFULLY by inserting all keys and
\* removing keys 0..m-1 again (full load / tombstone saturation, so that the in-place rehash runs with live elements)
TEv(op, k) == [op |-> op, t |-> 1, u |-> 0, k |-> k, id |-> 1, v |-> 1, vid |-> 0, n |-> 0, j |-> -1, ks |-> <<>>, r |-> <<>>, y |-> <<>>, pn |-> ""]
RECURSIVE RunLawful(_, _, _)
RunLawful(tt, es, plan) == IF es = <<>> THEN tt ELSE RunLawful(MapOp(Head(es), tt, plan, LawfulEnv).t, Tail(es), plan)
Template(plan, m) == RunLawful(Singleton(Es), [i \in 1..(NK + m) |-> IF i <= NK THEN TEv("insert", i - 1) ELSE TEv("remove", i - NK - 1)], plan)
\* FixedPlan = 0: every plan over Hashes; n > 0: the single plan pos(k) = n for odd k, 0 for even k, tag 0 (two home positions, one of them unaligned, so
\* that elements are displaced past each other and the in-place rehash moves and swaps them)
PlanSet == IF FixedPlan = 0 THEN [Keys -> Hashes] ELSE {[k \in Keys |-> [pos |-> IF k % 2 = 1 THEN FixedPlan ELSE 0, tag |-> 0]]}
Init == /\ hp \in PlanSet
        /\ t \in {Singleton(Es)} \cup {Template(hp, m) : m \in TRem}
        /\ A = Elems(t) /\ chk = TRUE

Ev(op, k, id, v, n, ks, r, y) ==
  [op |-> op, t |-> 1, u |-> 0, k |-> k, id |-> id, v |-> v, vid |-> 0, n |-> n, j |-> -1, ks |-> ks, r |-> r, y |-> y, pn |-> ""]

CapOf(x) == x.items + x.gl

\* action-level properties (C08): room is real, unused room costs nothing
ActOK(e, t0, t1) ==
  /\ (e.op \in {"insert", "e_or_insert", "rc_or_insert", "re_from_key_or_insert", "e_insert"} /\ ~Has(Elems(t0), e.k) /\ t0.gl >= 1)
        => t1.mask = t0.mask                                       \* no (re)allocation while len < capacity
  /\ (e.op = "reserve") => CapOf(t1) >= t1.items + e.n
  /\ (e.op \in {"shrink_to", "shrink_to_fit"}) =>
        LET m == IF e.op = "shrink_to" THEN e.n ELSE 0
            lo == IF m < CapOf(t0) THEN m ELSE CapOf(t0)
        IN /\ CapOf(t1) >= (IF t1.items > lo THEN t1.items ELSE lo)
           /\ t1.mask <= t0.mask
           /\ (t1.items = 0 /\ m = 0) => t1.mask = 0
           /\ LET need == IF t1.items > m THEN t1.items ELSE m
              IN need > 0 => t1.mask + 1 <= CapToBuckets(need, Es)
  /\ (e.op \in {"clear", "drain"}) => t1.mask = t0.mask            \* clear and drain keep the allocation

Step(e) ==
  LET c == MapOp(e, t, hp, LawfulEnv)
      a == AbsMapOp(e, A, {}, hp)
  IN /\ t' = c.t
     /\ A' = a.A
     /\ chk' = (c.st = "ok" /\ ActOK(e, t, c.t))
     /\ UNCHANGED hp

KI2(S) == {<<x[1], x[2]>> : x \in S}
ReservePath(t0, e) ==
  IF e.op \in {"insert"} /\ 1 > t0.gl THEN (IF t0.items + 1 <= Cap(t0.mask) \div 2 THEN "inplace" ELSE "resize")
  ELSE IF e.op = "reserve" /\ e.n > t0.gl THEN (IF t0.items + e.n <= Cap(t0.mask) \div 2 THEN "inplace" ELSE "resize")
  ELSE "none"

(* C04: the k-th hasher invocation inside the operation panics.  Post-unwind obligations (checked through
   chk and the state invariants): the table satisfies the structural invariant with exact accounting, it
   holds no element it did not hold before (plus possibly the new one), every element that disappeared was
   dropped exactly once by a scope guard, and a panic on the growth-into-a-new-allocation path changes nothing. *)
FaultStep(e, pa) ==
  LET c == MapOp(e, t, hp, [pa |-> pa, hs |-> <<>>])
      E1 == Elems(c.t)
      gone == A \ E1
  IN /\ c.st = "unwound"              \* only behaviours in which the armed panic really fired
     /\ t' = c.t
     /\ A' = E1
     /\ chk' = /\ KI2(E1) \subseteq KI2(A)
               /\ c.dr \ {0} = {x[2] : x \in gone} \ {0}
               /\ (c.t.mask # t.mask => FALSE)                     \* a failed growth never installs the new table
               /\ (ReservePath(t, e) = "resize" => E1 = A)         \* hasher panic while growing into a new allocation
     /\ UNCHANGED hp
KeyOps == OpNames \cap {"insert", "remove", "remove_entry", "get_mut", "try_insert", "e_or_insert", "e_insert", "e_remove",
                        "e_replace_some", "e_replace_none", "e_and_modify_or_insert", "rc_or_insert", "rc_insert", "rc_remove",
                        "rc_vacant_drop", "re_from_key_or_insert", "re_insert_hashed_nocheck", "re_remove", "e_occ_insert"}
NumOps == OpNames \cap {"reserve", "shrink_to"}
PlainOps == OpNames \cap {"clear", "shrink_to_fit"}

Next ==
  \/ \E op \in KeyOps, k \in Keys, id \in KIds, v \in Vals : Step(Ev(op, k, id, v, 0, <<>>, <<>>, <<>>))
  \/ \E op \in NumOps, n \in 0..(NK + 2) : Step(Ev(op, -1, 0, 0, n, <<>>, <<>>, <<>>))
  \/ \E op \in PlainOps : Step(Ev(op, -1, 0, 0, 0, <<>>, <<>>, <<>>))
  \/ /\ "drain" \in OpNames /\ Step([Ev("drain", -1, 0, 0, 0, <<>>, <<>>, <<>>) EXCEPT !.j = -1])
  \/ /\ "retain" \in OpNames
     /\ \E K \in SUBSET Keys : Step(Ev("retain", -1, 0, 0, 0, SetToSeq(K), <<>>, <<>>))
  \/ /\ "extract_if" \in OpNames
     /\ \E K \in SUBSET Keys, p \in 0..NK :
          LET asc == Prefix(AscFull(t), p)
          IN Step(Ev("extract_if", -1, 0, 0, 0, SetToSeq(K), [i \in 1..Len(asc) |-> t.data[asc[i]][1]], <<>>))
  \/ /\ "extend" \in OpNames
     /\ \E k1, k2 \in Keys, v \in Vals :
          Step(Ev("extend", -1, 0, 0, 0, <<>>, <<>>, <<<<k1, 1, v, 0>>, <<k2, 2, v, 0>>>>))

FNext ==
  \/ Next
  \/ \E op \in KeyOps, k \in Keys, id \in KIds, v \in Vals, pa \in 1..MaxPa : FaultStep(Ev(op, k, id, v, 0, <<>>, <<>>, <<>>), pa)
  \/ \E op \in NumOps, n \in 0..(NK + 2), pa \in 1..MaxPa : FaultStep(Ev(op, -1, 0, 0, n, <<>>, <<>>, <<>>), pa)
  \/ \E op \in PlainOps, pa \in 1..MaxPa : FaultStep(Ev(op, -1, 0, 0, 0, <<>>, <<>>, <<>>), pa)

Spec == Init /\ [][Next]_vars
FSpec == Init /\ [][FNext]_vars

---------------------------------------------------------------------------
Inv == InvMap(t, TRUE)
Refines == Elems(t) = A
\* every possible lookup answers exactly like the reference (present keys found in their own slot, absent keys not found)
LookupOK == \A k \in Keys :
              LET i == Find(t, k, hp[k])
              IN IF Has(A, k) THEN i # -1 /\ t.data[i] = Get(A, k) ELSE i = -1
ChkOK == chk
CapacityOK == CapOf(t) >= t.items /\ CapOf(t) <= Cap(t.mask)
\* C13: with at most NK live elements and no explicit reservation the table never exceeds MaxB buckets
Bounded == t.mask + 1 <= MaxB
=============================================================================
