------------------------------ MODULE MC_table ------------------------------
(***************************************************************************)
(* Exhaustive small-scope model of HashTable (explicit-hash API): the       *)
(* concrete table (HbTableOps over HbCore) in lockstep with the abstract    *)
(* multiset of TableSpec; equal elements may be stored twice (identities 1  *)
(* and 2).  Which of several matching duplicates an operation hits is free, *)
(* so the abstract step follows the element the concrete operation chose,   *)
(* and the invariant demands that this choice is always a legal one.        *)
(***************************************************************************)
EXTENDS HbTableOps, TLCExt, SequencesExt

CONSTANTS NK, Poss, Tags, Es, OpNames, MaxPa, TK, TRem
Keys == 0..(NK - 1)
VARIABLES t, A, hp, chk
vars == <<t, A, hp, chk>>
Hashes == [pos : Poss, tag : Tags]
\* start states: the unallocated table and, for every m in TRem, the table built LAWFULLY by TK insertions (classes in turn,
\* identities 11..) followed by m removals - full load / tombstone saturation, so that the in-place rehash runs with live elements
TEv(op, k, id) == [op |-> op, t |-> 1, u |-> 0, k |-> k, id |-> id, v |-> 0, vid |-> 0, n |-> 0, j |-> -1, ks |-> <<>>, r |-> <<>>, y |-> <<>>, pn |-> ""]
RECURSIVE RunLawful(_, _, _)
RunLawful(tt, es, plan) == IF es = <<>> THEN tt ELSE RunLawful(TableOp(Head(es), tt, plan[Head(es).k], LawfulEnv).t, Tail(es), plan)
Template(plan, m) == RunLawful(Singleton(Es), [i \in 1..(TK + m) |-> IF i <= TK THEN TEv("t_insert_unique", i % NK, 10 + i) ELSE TEv("t_remove", (i - TK) % NK, 0)], plan)
Init == /\ hp \in [Keys -> Hashes]
        /\ t \in {Singleton(Es)} \cup {Template(hp, m) : m \in TRem}
        /\ A = Elems(t) /\ chk = TRUE

Ev(op, k, id, v, n, ks, r) ==
  [op |-> op, t |-> 1, u |-> 0, k |-> k, id |-> id, v |-> v, vid |-> 0, n |-> n, j |-> -1, ks |-> ks, r |-> r, y |-> <<>>, pn |-> ""]

\* the concrete step decides which element is hit; the abstract content follows the concrete table and the
\* step is legal iff the abstract specification allows that outcome
Step(e) ==
  LET h == IF e.k >= 0 THEN hp[e.k] ELSE [pos |-> 0, tag |-> 0]
      c == TableOp(e, t, h, LawfulEnv)
      N == Elems(c.t)
      cands == CandsH(A, e.k, h)
      legal ==
        CASE e.op = "t_insert_unique" -> N = A \cup {MkElem(e.k, e.id, e.v, 0, h)}
          [] e.op = "t_remove" -> IF cands = {} THEN N = A ELSE \E x \in cands : N = A \ {x}
          [] e.op = "t_remove_reinsert" ->
               IF cands = {} THEN N = A ELSE \E x \in cands : N = (A \ {x}) \cup {MkElem(e.k, e.id, e.v, 0, h)}
          [] e.op = "t_entry_or_insert" -> IF cands = {} THEN N = A \cup {MkElem(e.k, e.id, e.v, 0, h)} ELSE N = A
          [] e.op = "t_entry_insert" ->
               IF cands = {} THEN N = A \cup {MkElem(e.k, e.id, e.v, 0, h)}
               ELSE \E x \in cands : N = (A \ {x}) \cup {MkElem(e.k, e.id, e.v, 0, h)}
          [] e.op = "t_entry_drop" -> N = A
          [] e.op \in {"reserve", "t_shrink_to_fit", "shrink_to"} -> N = A
          [] e.op = "clear" -> N = {}
          [] e.op = "retain" -> N = {x \in A : x[1] \in SeqToSet(e.ks)}
          [] OTHER -> FALSE
  IN /\ t' = c.t /\ A' = N
     /\ chk' = (c.st = "ok" /\ legal /\ (e.op = "reserve" => c.t.items + c.t.gl >= c.t.items + e.n))
     /\ UNCHANGED hp

Fresh(k) == {i \in {1, 2} : ~\E x \in A : x[1] = k /\ x[2] = i}
Next ==
  \/ \E k \in Keys : \E id \in Fresh(k) : \E op \in OpNames \cap {"t_insert_unique", "t_remove_reinsert", "t_entry_or_insert", "t_entry_insert"} :
        Step(Ev(op, k, id, 0, 0, <<>>, <<>>))
  \/ \E k \in Keys, op \in OpNames \cap {"t_remove", "t_entry_drop"} : Step(Ev(op, k, 0, 0, 0, <<>>, <<>>))
  \/ \E n \in {1, NK, 2 * NK} : "reserve" \in OpNames /\ Step(Ev("reserve", -1, 0, 0, n, <<>>, <<>>))
  \/ \E op \in OpNames \cap {"t_shrink_to_fit", "clear"} : Step(Ev(op, -1, 0, 0, 0, <<>>, <<>>))
  \/ "retain" \in OpNames /\ \E K \in SUBSET Keys : Step(Ev("retain", -1, 0, 0, 0, SetToSeq(K), <<>>))
Spec == Init /\ [][Next]_vars

(* C04 for HashTable: the re-hash closure panics at its pa-th invocation (inside reserve / the growth of insert_unique and
   entry / shrink).  Post-unwind: the table is structurally valid with exact accounting, holds nothing it did not hold
   before, every element that disappeared was dropped by a scope guard exactly once, and a failed growth into a new
   allocation changes nothing. *)
KI2(S) == {<<x[1], x[2]>> : x \in S}
FaultStep(e, pa) ==
  LET h == IF e.k >= 0 THEN hp[e.k] ELSE [pos |-> 0, tag |-> 0]
      c == TableOp(e, t, h, [pa |-> pa, hs |-> <<>>])
      E1 == Elems(c.t)
      gone == A \ E1
  IN /\ c.st = "unwound"
     /\ t' = c.t /\ A' = E1
     /\ chk' = /\ KI2(E1) \subseteq KI2(A)
               /\ c.dr \ {0} = {x[2] : x \in gone} \ {0}
               /\ c.t.mask = t.mask
               /\ Cardinality(E1) = c.t.items
     /\ UNCHANGED hp
FNext ==
  \/ Next
  \/ \E k \in Keys, pa \in 1..MaxPa : \E id \in Fresh(k) : \E op \in OpNames \cap {"t_insert_unique", "t_entry_or_insert", "t_entry_insert"} :
        FaultStep(Ev(op, k, id, 0, 0, <<>>, <<>>), pa)
  \/ \E k \in Keys, pa \in 1..MaxPa : "t_entry_drop" \in OpNames /\ FaultStep(Ev("t_entry_drop", k, 0, 0, 0, <<>>, <<>>), pa)
  \/ \E n \in {1, NK, 2 * NK}, pa \in 1..MaxPa : "reserve" \in OpNames /\ FaultStep(Ev("reserve", -1, 0, 0, n, <<>>, <<>>), pa)
  \/ \E pa \in 1..MaxPa : "t_shrink_to_fit" \in OpNames /\ FaultStep(Ev("t_shrink_to_fit", -1, 0, 0, 0, <<>>, <<>>), pa)
FSpec == Init /\ [][FNext]_vars

Inv == InvTable(t, TRUE)
Refines == Elems(t) = A /\ Cardinality(A) = t.items
ChkOK == chk
\* every lookup with (class, hash) finds a stored element of that class and hash iff one exists
LookupInv == \A k \in Keys :
               LET acc == {i \in FullIdx(t) : t.data[i][1] = k /\ t.data[i][5] = hp[k].pos /\ t.data[i][6] = hp[k].tag}
                   i == FindPred(t, acc, hp[k])
               IN IF CandsH(A, k, hp[k]) = {} THEN i = -1 ELSE i # -1 /\ t.data[i] \in CandsH(A, k, hp[k])
\* iter_hash(h) yields every element inserted with h, nothing twice
IterHashInv == \A k \in Keys :
                 LET s == IterHash(t, hp[k])
                 IN /\ \A i, j \in 1..Len(s) : i # j => s[i] # s[j]
                    /\ \A i \in FullIdx(t) : (t.data[i][5] = hp[k].pos /\ t.data[i][6] = hp[k].tag) => i \in {s[q] : q \in 1..Len(s)}
=============================================================================
