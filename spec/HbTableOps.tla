----------------------------- MODULE HbTableOps -----------------------------
(***************************************************************************)
(* TableSpec (a multiset keyed by caller-supplied hashes) and HbTable (the  *)
(* HashTable API composed from the raw operators as in src/table.rs).      *)
(* Elements are <<class, id, value, 0, pos, tag>> where <<pos, tag>> is the *)
(* hash the element was inserted with (the caller's hasher returns it).    *)
(* Several stored elements may have the same class; which of several       *)
(* matching duplicates a lookup returns is free (DESIGN 3.6), so the       *)
(* abstract step is driven by the identity the call reported.              *)
(***************************************************************************)
EXTENDS HbSetOps

WithHash(S, h) == {x \in S : x[5] = h.pos /\ x[6] = h.tag}
\* the drivers' (lawful) equality closure: same class AND inserted with the hash now supplied
CandsH(A, k, h) == WithHash({x \in A : x[1] = k}, h)
Cands(A, k) == {x \in A : x[1] = k}
\* a lookup with hash h and that closure returned the element with identity rid (-1 = None)
LookupOKH(A, k, h, rid) ==
  IF rid = -1 THEN CandsH(A, k, h) = {}                     \* must not miss an element inserted with hash h
  ELSE \E x \in CandsH(A, k, h) : x[2] = rid                \* must be a stored element satisfying eq
LookupOK(A, k, h, rid) == LookupOKH(A, k, h, rid)
Hit(A, k, rid) == CHOOSE x \in Cands(A, k) : x[2] = rid

AbsTableOp(e, A, pre, h) ==
  LET k == e.k
      ne == MkElem(k, e.id, e.v, 0, h)
      rid == IF Len(e.r) >= 1 THEN e.r[1] ELSE -1
  IN
  CASE e.op = "t_insert_unique" -> AR(A \cup {ne}, {}, e.r = <<e.id>> /\ e.pn = "")
    [] e.op = "t_find" ->
         AR(A, {}, /\ e.pn = "" /\ LookupOK(A, k, h, rid)
                   /\ (rid # -1 => e.r[2] = Hit(A, k, rid)[3]) /\ (rid = -1 => e.r = <<-1, -1>>))
    [] e.op \in {"t_find_mut", "t_occ_get_mut"} ->
         IF rid = -1 THEN AR(A, {}, e.pn = "" /\ LookupOK(A, k, h, -1) /\ e.r = <<-1, -1>>)
         ELSE IF ~LookupOK(A, k, h, rid) THEN AR(A, {}, FALSE)
         ELSE LET x == Hit(A, k, rid) IN AR((A \ {x}) \cup {SetV(x, e.v)}, {}, e.pn = "" /\ e.r = <<rid, e.v>>)
    [] e.op = "t_entry_or_insert" ->
         IF e.r[1] = 1 THEN AR(A, {}, e.pn = "" /\ LookupOK(A, k, h, e.r[2]) /\ e.r[2] # -1 /\ e.r[3] = Hit(A, k, e.r[2])[3] /\ e.id = 0)
         ELSE AR(A \cup {ne}, {}, e.pn = "" /\ LookupOK(A, k, h, -1) /\ e.r = <<0, e.id, e.v>>)
    [] e.op = "t_entry_insert" ->
         \* (the occupied case overwrites one of the matching elements and is resolved against the observed state, see HbTrace)
         AR(A \cup {ne}, {}, e.pn = "" /\ LookupOK(A, k, h, -1) /\ e.r = <<0, e.id, e.v>>)
    [] e.op = "t_entry_and_modify" ->
         IF e.r[1] = 1
         THEN IF ~LookupOK(A, k, h, e.r[2]) \/ e.r[2] = -1 THEN AR(A, {}, FALSE)
              ELSE LET x == Hit(A, k, e.r[2]) IN AR((A \ {x}) \cup {SetV(x, e.v)}, {}, e.pn = "" /\ e.r = <<1, e.r[2], e.v>>)
         ELSE AR(A, {}, e.pn = "" /\ LookupOK(A, k, h, -1) /\ e.r = <<0, -1, -1>>)
    [] e.op = "t_entry_drop" ->
         IF e.r[1] = 1 THEN AR(A, {}, e.pn = "" /\ e.r[2] # -1 /\ LookupOK(A, k, h, e.r[2]) /\ e.r[3] = Hit(A, k, e.r[2])[3])
         ELSE AR(A, {}, e.pn = "" /\ LookupOK(A, k, h, -1) /\ e.r = <<0, -1, -1>>)
    [] e.op = "t_remove" ->
         IF rid = -1 THEN AR(A, {}, e.pn = "" /\ LookupOK(A, k, h, -1) /\ e.r = <<-1, -1>>)
         ELSE IF ~LookupOK(A, k, h, rid) THEN AR(A, {}, FALSE)
         ELSE LET x == Hit(A, k, rid) IN AR(A \ {x}, {}, e.pn = "" /\ e.r = <<rid, x[3]>>)
    [] e.op = "t_remove_reinsert" ->
         IF rid = -1 THEN AR(A, {}, e.pn = "" /\ LookupOK(A, k, h, -1) /\ e.r = <<-1, -1>>)
         ELSE IF ~LookupOK(A, k, h, rid) THEN AR(A, {}, FALSE)
         ELSE LET x == Hit(A, k, rid) IN AR((A \ {x}) \cup {ne}, {}, e.pn = "" /\ e.r = <<rid, e.id>>)
    [] e.op = "t_shrink_to_fit" -> AR(A, {}, e.pn = "")
    \* iter_hash(h): every stored element inserted with hash h is yielded, nothing twice, only stored elements
    [] e.op = "t_iter_hash" ->
         LET idxs == [i \in 1..Len(e.y) |-> e.y[i][1]]
         IN AR(A, {}, /\ e.pn = "" /\ NoDupSeq(idxs)
                      /\ \A i \in 1..Len(e.y) : /\ e.y[i][1] \in FullIdx(pre)
                                                /\ pre.data[e.y[i][1]][1] = e.y[i][2] /\ pre.data[e.y[i][1]][2] = e.y[i][3]
                      /\ \A i \in FullIdx(pre) : (pre.data[i][5] = h.pos /\ pre.data[i][6] = h.tag) => i \in SeqToSet(idxs))
    \* extract_if: e.r = visited bucket indices, e.ks = selected classes
    [] e.op = "t_extract_if" ->
         LET S == SeqToSet(e.ks)
             vis == SeqToSet(e.r)
             Vs == {pre.data[i] : i \in vis \cap FullIdx(pre)}
             exhausted == e.j < 0 \/ Len(e.y) < e.j
             out == {z \in Vs : z[1] \in S}
             stay == (A \ Vs) \cup {SetV(z, BumpV(z[3])) : z \in Vs \ out}
         IN AR(stay, {},
               /\ NoDupSeq(e.r) /\ vis \subseteq FullIdx(pre)
               /\ (exhausted => vis = FullIdx(pre))
               /\ Len(e.y) = Cardinality(out)
               /\ (e.j >= 0 => Len(e.y) <= e.j)
               /\ SeqToSet(e.y) = {<<z[1], z[2], BumpV(z[3]), 0>> : z \in out}
               /\ e.pn = "")
    [] OTHER -> AbsMapOp(e, A, {}, [x \in {} |-> x])

---------------------------------------------------------------------------
(* concrete composition *)

\* HashTable::entry = find_or_find_insert_slot: reserve(1) BEFORE searching, whatever the outcome
TableEntry(t, k, h, env) ==
  LET r == Reserve(t, 1, env, 0)
      acc == {i \in FullIdx(r.t) : r.t.data[i][1] = k /\ r.t.data[i][5] = h.pos /\ r.t.data[i][6] = h.tag}
  IN IF r.st = "ok" THEN [r |-> r, f |-> FoFisPred(r.t, acc, h)] ELSE [r |-> r, f |-> <<FALSE, -1>>]

TableOp(e, t, h, env) ==
  LET k == e.k
      el == MkElem(k, e.id, e.v, 0, h)
      accIdx == {i \in FullIdx(t) : t.data[i][1] = k /\ t.data[i][5] = h.pos /\ t.data[i][6] = h.tag}
      fi == IF k >= 0 THEN FindPred(t, accIdx, h) ELSE -1
  IN
  CASE e.op = "t_insert_unique" -> RawInsert(t, el, h, env, 0)
    [] e.op = "t_find" -> R(t, 0, "ok", {})
    [] e.op \in {"t_find_mut", "t_occ_get_mut"} -> IF fi = -1 THEN R(t, 0, "ok", {}) ELSE R(SetDataV(t, fi, e.v), 0, "ok", {})
    [] e.op \in {"t_entry_or_insert", "t_entry_insert", "t_entry_and_modify", "t_entry_drop"} ->
         LET rf == TableEntry(t, k, h, env)
         IN IF rf.r.st # "ok" THEN rf.r
            ELSE IF rf.f[1]
                 THEN (IF e.op = "t_entry_insert" THEN R([rf.r.t EXCEPT !.data[rf.f[2]] = el], rf.r.n, "ok", {})
                       ELSE IF e.op = "t_entry_and_modify" THEN R(SetDataV(rf.r.t, rf.f[2], e.v), rf.r.n, "ok", {})
                       ELSE rf.r)
                 ELSE (IF e.op \in {"t_entry_or_insert", "t_entry_insert"} THEN R(InsertInSlot(rf.r.t, rf.f[2], el), rf.r.n, "ok", {})
                       ELSE rf.r)
    [] e.op = "t_remove" -> IF fi = -1 THEN R(t, 0, "ok", {}) ELSE R(EraseAt(t, fi), 0, "ok", {})
    \* OccupiedEntry::remove returns the freed slot; VacantEntry::insert = insert_in_slot re-reading its control byte
    [] e.op = "t_remove_reinsert" -> IF fi = -1 THEN R(t, 0, "ok", {}) ELSE R(InsertInSlot(EraseAt(t, fi), fi, el), 0, "ok", {})
    [] e.op = "t_shrink_to_fit" -> ShrinkTo(t, t.items, env, 0)
    [] e.op = "t_iter_hash" -> R(t, 0, "ok", {})
    [] e.op = "t_extract_if" ->
         LET asc == Prefix(AscFull(t), Len(e.r))
             vis == SeqToSet(asc)
             keepIdx == {i \in vis : t.data[i][1] \notin SeqToSet(e.ks)}
         IN R(EraseSeq(Bump(t, vis), asc, keepIdx), 0, "ok", {})
    [] OTHER -> MapOp(e, t, [x \in {} |-> x], env)
=============================================================================
