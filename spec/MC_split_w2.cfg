SPECIFICATION Spec
CONSTANTS
  W = 2
  NB = 8
INVARIANT SplitInv
CHECK_DEADLOCK FALSE
