------------------------------ MODULE HbMapOps ------------------------------
(***************************************************************************)
(* HbMap: the public HashMap API composed from the raw operators of HbCore *)
(* exactly as src/map.rs, src/raw_entry.rs and src/rustc_entry.rs compose  *)
(* the raw calls (DESIGN appendix D).  MapOp(e, t, ph, env) returns        *)
(*   [t, n, st, dr]  -- the table afterwards, hasher calls made, "ok" or   *)
(*   "unwound", ids dropped by a scope guard.                              *)
(***************************************************************************)
EXTENDS HbMapAbs

SetDataV(t, idx, v) == [t EXCEPT !.data[idx] = SetV(t.data[idx], v)]
SetDataVV(t, idx, v, vid) == [t EXCEPT !.data[idx] = SetVV(t.data[idx], v, vid)]

(* HashMap::insert :1790 = hash; find_or_find_insert_slot (reserve(1) first); replace value or insert_in_slot *)
MapInsert(t, k, id, v, vid, h, env, n0) ==
  LET n1 == n0 + 1   \* make_hash of the key
  IN IF Panics(env, n1) THEN R(t, n1, "unwound", {})
     ELSE LET rf == ReserveThenFoFis(t, k, h, env, n1)
          IN IF rf.r.st # "ok" THEN rf.r
             ELSE IF rf.f[1] THEN R(SetDataVV(rf.r.t, rf.f[2], v, vid), rf.r.n, "ok", {})
             ELSE R(InsertInSlot(rf.r.t, rf.f[2], MkElem(k, id, v, vid, h)), rf.r.n, "ok", {})

(* entry().or_insert & friends: find; vacant => RawTable::insert *)
MapEntryInsert(t, el, h, env, n0) ==
  LET n1 == n0 + 1
  IN IF Panics(env, n1) THEN R(t, n1, "unwound", {})
     ELSE IF Find(t, el[1], h) # -1 THEN R(t, n1, "ok", {})
     ELSE RawInsert(t, el, h, env, n1)

(* rustc_entry :34 -- vacant => reserve(1) at creation *)
RustcEntry(t, k, h, env, n0) ==
  LET n1 == n0 + 1
  IN IF Panics(env, n1) THEN R(t, n1, "unwound", {})
     ELSE IF Find(t, k, h) # -1 THEN R(t, n1, "ok", {})
     ELSE Reserve(t, 1, env, n1)
(* RustcVacantEntry::insert :512 = insert_no_grow *)
InsertNoGrow(t, el, h) == InsertInSlot(t, FindInsertSlot(t.ctrl, t.mask, h), el)

RECURSIVE MapExtendLoop(_, _, _, _, _)
MapExtendLoop(t, ys, ph, env, n) ==
  IF ys = <<>> THEN R(t, n, "ok", {})
  ELSE LET y == Head(ys)
           r == MapInsert(t, y[1], y[2], y[3], y[4], ph[y[1]], env, n)
       IN IF r.st # "ok" THEN r ELSE MapExtendLoop(r.t, Tail(ys), ph, env, r.n)

\* all visited elements get v + 1000 (the drivers' predicates mutate through &mut)
Bump(t, idxs) == [t EXCEPT !.data = [i \in 0..t.mask |-> IF i \in idxs THEN SetV(t.data[i], BumpV(t.data[i][3])) ELSE t.data[i]]]
Prefix(s, n) == IF n >= Len(s) THEN s ELSE SubSeq(s, 1, n)

MapOp(e, t, ph, env) ==
  LET k == e.k
      h == IF k >= 0 THEN ph[k] ELSE [pos |-> 0, tag |-> 0]
      el == MkElem(k, e.id, e.v, e.vid, h)
      same == R(t, 0, "ok", {})
      lookup == IF Panics(env, 1) THEN R(t, 1, "unwound", {}) ELSE R(t, 1, "ok", {})
      fi == IF k >= 0 THEN Find(t, k, h) ELSE -1
      removeK == IF Panics(env, 1) THEN R(t, 1, "unwound", {})
                 ELSE IF fi = -1 THEN R(t, 1, "ok", {}) ELSE R(EraseAt(t, fi), 1, "ok", {})
      setV == IF Panics(env, 1) THEN R(t, 1, "unwound", {})
              ELSE IF fi = -1 THEN R(t, 1, "ok", {}) ELSE R(SetDataV(t, fi, e.v), 1, "ok", {})
  IN
  CASE e.op = "new" -> R(Singleton(t.es), 0, "ok", {})
    [] e.op = "with_capacity" -> R(WithCapacity(e.n, t.es), 0, "ok", {})
    [] e.op = "insert" -> MapInsert(t, k, e.id, e.v, e.vid, h, env, 0)
    \* get-family returns None without hashing when the map is empty (map.rs get_inner)
    [] e.op \in {"get", "get_q", "contains", "index"} -> IF t.items = 0 THEN same ELSE lookup
    [] e.op = "re_get" -> IF e.n = 0 THEN lookup ELSE same
    [] e.op \in {"get_mut", "get_kv_mut"} -> IF t.items = 0 THEN same ELSE setV
    [] e.op = "rc_remove" ->
         LET r == RustcEntry(t, k, h, env, 0)
         IN IF r.st # "ok" \/ fi = -1 THEN r ELSE R(EraseAt(r.t, fi), r.n, "ok", {})
    [] e.op \in {"remove", "remove_entry", "e_remove", "e_remove_entry", "e_replace_none",
                 "e_and_replace_none", "re_remove", "re_replace_none"} -> removeK
    [] e.op \in {"try_insert", "e_or_insert", "e_or_insert_with", "e_insert_entry", "er_or_insert", "er_insert_entry"} ->
         MapEntryInsert(t, el, h, env, 0)
    [] e.op = "e_or_insert_with_key" -> MapEntryInsert(t, MkElem(k, e.id, e.v + k, e.vid, h), h, env, 0)
    [] e.op \in {"e_and_modify_or_insert", "er_and_modify_or_insert"} ->
         IF Panics(env, 1) THEN R(t, 1, "unwound", {})
         ELSE IF fi # -1 THEN R(SetDataV(t, fi, t.data[fi][3] + 100), 1, "ok", {})
         ELSE RawInsert(t, el, h, env, 1)
    [] e.op \in {"e_insert", "er_insert"} ->
         IF Panics(env, 1) THEN R(t, 1, "unwound", {})
         ELSE IF fi # -1 THEN R(SetDataVV(t, fi, e.v, e.vid), 1, "ok", {})
         ELSE RawInsert(t, el, h, env, 1)
    [] e.op = "e_occ_insert" ->
         IF Panics(env, 1) THEN R(t, 1, "unwound", {})
         ELSE IF fi # -1 THEN R(SetDataVV(t, fi, e.v, e.vid), 1, "ok", {}) ELSE R(t, 1, "ok", {})
    [] e.op \in {"e_occ_get_mut", "e_replace_some", "e_and_replace_some", "re_replace_some"} -> setV
    [] e.op \in {"e_vacant_drop", "e_into_key", "er_drop", "re_drop"} -> lookup
    [] e.op \in {"rc_or_insert", "rc_insert_entry"} ->
         LET r == RustcEntry(t, k, h, env, 0)
         IN IF r.st # "ok" \/ fi # -1 THEN r ELSE R(InsertNoGrow(r.t, el, h), r.n, "ok", {})
    [] e.op = "rc_insert" ->
         LET r == RustcEntry(t, k, h, env, 0)
         IN IF r.st # "ok" THEN r
            ELSE IF fi # -1 THEN R(SetDataVV(r.t, fi, e.v, e.vid), r.n, "ok", {})
            ELSE R(InsertNoGrow(r.t, el, h), r.n, "ok", {})
    [] e.op = "rc_vacant_drop" -> RustcEntry(t, k, h, env, 0)
    \* raw entry: from_key hashes the key; the *_hashed_nocheck / from_hash builders do not.
    \* RawVacantEntryMut::insert hashes the given key again before RawTable::insert.
    [] e.op = "re_from_key_or_insert" ->
         IF Panics(env, 1) THEN R(t, 1, "unwound", {})
         ELSE IF fi # -1 THEN R(t, 1, "ok", {})
         ELSE IF Panics(env, 2) THEN R(t, 2, "unwound", {e.id, e.vid}) ELSE RawInsert(t, el, h, env, 2)
    [] e.op \in {"re_hashed_or_insert", "re_from_hash_or_insert"} ->
         IF fi # -1 THEN R(t, 0, "ok", {})
         ELSE IF Panics(env, 1) THEN R(t, 1, "unwound", {e.id, e.vid}) ELSE RawInsert(t, el, h, env, 1)
    [] e.op \in {"re_insert_hashed_nocheck", "re_insert_with_hasher"} ->
         IF fi # -1 THEN R(t, 0, "ok", {}) ELSE RawInsert(t, el, h, env, 0)
    [] e.op = "insert_unique_unchecked" ->
         IF Panics(env, 1) THEN R(t, 1, "unwound", {e.id, e.vid}) ELSE RawInsert(t, el, h, env, 1)
    [] e.op = "extend" ->
         LET cnt == Len(e.y)
             res == IF t.items = 0 THEN cnt ELSE (cnt + 1) \div 2
             r0 == Reserve(t, res, env, 0)
         IN IF r0.st # "ok" THEN r0 ELSE MapExtendLoop(r0.t, e.y, ph, env, r0.n)
    [] e.op = "clear" -> R(Clear(t), 0, "ok", {})
    [] e.op = "reserve" -> Reserve(t, e.n, env, 0)
    [] e.op = "try_reserve" -> IF e.r[1] = 0 /\ e.n >= 0 THEN Reserve(t, e.n, env, 0) ELSE same
    [] e.op = "shrink_to" -> ShrinkTo(t, e.n, env, 0)
    [] e.op = "shrink_to_fit" -> ShrinkTo(t, 0, env, 0)
    [] e.op = "retain" ->
         LET asc == AscFull(t)
             keepIdx == {i \in FullIdx(t) : t.data[i][1] \in SeqToSet(e.ks)}
         IN R(EraseSeq(Bump(t, FullIdx(t)), asc, keepIdx), 0, "ok", {})
    [] e.op = "extract_if" ->
         LET asc == Prefix(AscFull(t), Len(e.r))      \* buckets the iterator visited before it was dropped
             vis == SeqToSet(asc)
             keepIdx == {i \in vis : t.data[i][1] \notin SeqToSet(e.ks)}
         IN R(EraseSeq(Bump(t, vis), asc, keepIdx), 0, "ok", {})
    \* drain: the table is moved out; Drop clears it without dropping (clear_no_drop) and moves it back;
    \* a forgotten Drain leaves the unallocated singleton behind
    [] e.op = "drain" -> IF e.n = 1 THEN R(Singleton(t.es), 0, "ok", {}) ELSE R(ClearNoDrop(t), 0, "ok", {})
    [] e.op = "into_iter" -> R(Singleton(t.es), 0, "ok", {})
    [] e.op = "par_drain" -> R(ClearNoDrop(t), 0, "ok", {})        \* RawParDrain::drop = clear_no_drop
    [] e.op = "into_par_iter" -> R(Singleton(t.es), 0, "ok", {})
    [] e.op \in {"eq", "iter"} -> same
    [] OTHER -> same
=============================================================================
