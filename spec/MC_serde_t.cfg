SPECIFICATION Spec
CONSTANTS
  W = 4
  NK = 3
  Poss = {0, 3, 5}
  Tags = {0}
  Es = 8
  CAUT = 4
  Hints = {0, 1, 3, 4, 5, 40, 1000000}
  MaxLen = 4
INVARIANT SerdeInv
CHECK_DEADLOCK FALSE
