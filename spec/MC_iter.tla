------------------------------- MODULE MC_iter -------------------------------
(***************************************************************************)
(* RawIter (src/raw/mod.rs:3656): the unchecked group walk that stops by    *)
(* ITEM COUNT (next_impl::<false>), its fold path (fold_impl), clones, and  *)
(* retain / extract_if erasing already-yielded buckets under the live       *)
(* iterator (the iterator keeps its own snapshot of the current group).     *)
(* Init ranges over ALL control-byte patterns over {FULL, EMPTY, DELETED}    *)
(* with at least one EMPTY bucket - not only the reachable ones.            *)
(* C09: every FULL bucket exactly once, ascending, exact remaining count,   *)
(* never a group load outside the table; C10: retain removes exactly the    *)
(* rejected elements and leaves a structurally valid table.                 *)
(***************************************************************************)
EXTENDS HbCore

CONSTANTS NB, Es
VARIABLES t, it, yielded, phase, keep
vars == <<t, it, yielded, phase, keep>>

\* (the range representation of HbSplit: [bits, base, next, end])
MinS(S) == CHOOSE x \in S : \A y \in S : x <= y
FullBits(c, ci) == {i \in 0..(W - 1) : IsFull(c[ci + i])}
RangeNew(c, ci, len) == [bits |-> FullBits(c, ci), base |-> ci, next |-> ci + W, end |-> ci + len]

Patterns == [0..(NB - 1) -> {0, EMPTY, DELETED}]
MirrorOf(c0, m) ==
  [i \in 0..(m + W) |->
     IF i <= m THEN c0[i]
     ELSE IF m + 1 < W THEN (IF i < W THEN EMPTY ELSE IF i - W <= m THEN c0[i - W] ELSE EMPTY)
     ELSE c0[i - (m + 1)]]
TableOf(p) ==
  LET m == NB - 1
      c == MirrorOf(p, m)
      items == Cardinality({i \in 0..m : IsFull(p[i])})
  IN [mask |-> m, ctrl |-> c, data |-> [i \in 0..m |-> IF IsFull(p[i]) THEN <<i, 0, 0, 0, 0, 0>> ELSE NoElem],
      items |-> items, gl |-> 0, es |-> Es]

Init == /\ \E p \in Patterns : Cardinality({i \in 0..(NB - 1) : p[i] = EMPTY}) >= 1 /\ t = TableOf(p)
        /\ it = [r |-> RangeNew(t.ctrl, 0, NB), items |-> t.items]
        /\ yielded = <<>> /\ phase = "iter"
        /\ keep \in {{i \in 0..(NB - 1) : i % 2 = 0}, {}, 0..(NB - 1)}

\* next_impl::<false>: the caller (RawIter::next) guarantees items > 0; oob = a group load at or beyond the end of the table
RECURSIVE NextUnchecked(_, _, _)
NextUnchecked(r, c, m) ==
  IF r.bits # {} THEN [idx |-> r.base + MinS(r.bits), r |-> [r EXCEPT !.bits = r.bits \ {MinS(r.bits)}], oob |-> FALSE]
  ELSE IF r.next > m THEN [idx |-> -1, r |-> r, oob |-> TRUE]
  ELSE NextUnchecked([r EXCEPT !.bits = FullBits(c, r.next), !.base = r.next, !.next = r.next + W], c, m)

\* one step of retain: yield the next element, erase it if the predicate rejects it
RetainStep ==
  /\ phase = "iter" /\ it.items > 0
  /\ LET n == NextUnchecked(it.r, t.ctrl, t.mask)
     IN /\ ~n.oob
        /\ yielded' = Append(yielded, n.idx)
        /\ it' = [r |-> n.r, items |-> it.items - 1]
        /\ t' = IF n.idx \in keep THEN t ELSE EraseAt(t, n.idx)
  /\ UNCHANGED <<phase, keep>>
\* fold_impl: the remaining elements in one go (must visit exactly it.items more buckets)
RECURSIVE FoldAll(_, _, _, _, _)
FoldAll(r, c, m, n, acc) ==
  IF n = 0 THEN [acc |-> acc, oob |-> FALSE]
  ELSE LET x == NextUnchecked(r, c, m) IN IF x.oob THEN [acc |-> acc, oob |-> TRUE] ELSE FoldAll(x.r, c, m, n - 1, Append(acc, x.idx))
FoldStep ==
  /\ phase = "iter"
  /\ LET f == FoldAll(it.r, t.ctrl, t.mask, it.items, <<>>)
     IN /\ ~f.oob
        /\ yielded' = yielded \o f.acc
        /\ it' = [it EXCEPT !.items = 0]
  /\ phase' = "done" /\ UNCHANGED <<t, keep>>
Done == phase = "iter" /\ it.items = 0 /\ phase' = "done" /\ UNCHANGED <<t, it, yielded, keep>>
Next == RetainStep \/ FoldStep \/ Done
Spec == Init /\ [][Next]_vars

NoDup == \A i, j \in 1..Len(yielded) : i # j => yielded[i] # yielded[j]
Ascending == \A i \in 1..(Len(yielded) - 1) : yielded[i] < yielded[i + 1]
InRange == \A i \in 1..Len(yielded) : yielded[i] \in 0..(NB - 1)
NeverOutOfBounds == (phase = "iter" /\ it.items > 0) => ~NextUnchecked(it.r, t.ctrl, t.mask).oob
\* a clone taken now would yield exactly the buckets that are still FULL and not yet yielded, in the same count
CloneOK == phase = "iter" =>
             LET f == FoldAll(it.r, t.ctrl, t.mask, it.items, <<>>)
             IN ~f.oob /\ Len(f.acc) = it.items /\ {f.acc[i] : i \in 1..Len(f.acc)} \cap {yielded[i] : i \in 1..Len(yielded)} = {}
YSet == {yielded[i] : i \in 1..Len(yielded)}
\* size_hint / len: the remaining count is exactly the number of FULL buckets not yet yielded
ExactLen == it.items = Cardinality(FullIdx(t) \ YSet)
AtEnd == phase = "done" => FullIdx(t) \subseteq YSet /\ I2(t) /\ I3(t) /\ I4(t) /\ I9(t)
IterInv == NoDup /\ Ascending /\ InRange /\ NeverOutOfBounds /\ CloneOK /\ ExactLen /\ AtEnd /\ I2(t) /\ I3(t)
=============================================================================
