SPECIFICATION FSpec
CONSTANTS
  W = 2
  NK = 2
  Poss = {0}
  Tags = {0, 1}
  Es = 8
  MaxPa = 3
  TK = 7
  TRem = {5}
  OpNames = {"t_insert_unique", "t_remove", "t_entry_or_insert", "t_entry_insert", "t_entry_drop", "reserve"}
INVARIANTS Inv Refines ChkOK LookupInv IterHashInv
CHECK_DEADLOCK FALSE
