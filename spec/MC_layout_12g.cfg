SPECIFICATION Spec
CONSTANTS
  BITS = 12
  GW = 8
INVARIANTS BucketsInv MonoInv LayoutInv ProbeInv
CHECK_DEADLOCK FALSE
