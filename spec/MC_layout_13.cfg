SPECIFICATION Spec
CONSTANTS
  BITS = 13
  GW = 16
INVARIANTS BucketsInv MonoInv LayoutInv ProbeInv
CHECK_DEADLOCK FALSE
