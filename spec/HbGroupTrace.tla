---------------------------- MODULE HbGroupTrace ----------------------------
(* Validates answers recorded from the real scanner primitives (harness `prims`) against HbGroup.
   W = 16 (SSE2): every primitive must equal its definition.  W = 8 (portable word): the tag match may additionally
   report bytes allowed by AllowedTagMatch; everything else must equal the definition. *)
EXTENDS Integers, Sequences, FiniteSets, TLC, TLCExt, Json, IOUtils, SequencesExt

CONSTANT W
Rec == ndJsonDeserialize(IOEnv.TRACE)
G == INSTANCE HbGroup WITH GW <- W

VARIABLE l
SetOf(s) == {s[i] : i \in 1..Len(s)}
Ascending(s) == \A i \in 1..(Len(s) - 1) : s[i] < s[i + 1]

MaskOK(bits, any, low, tz, lz, S) ==
  /\ Ascending(bits) /\ SetOf(bits) = S
  /\ (any = 1) = (S # {})
  /\ low = G!LowestSetBit(S) /\ tz = G!TrailingZeros(S) /\ lz = G!LeadingZeros(S)

RecOK(o) ==
  LET g == [i \in 0..(W - 1) |-> o.g[i + 1]]
      mt == SetOf(o.mt)
  IN /\ IF W = 16 THEN mt = G!DefMatchTag(g, o.tag) ELSE G!AllowedTagMatch(g, o.tag, mt)
     /\ MaskOK(o.mt, o.mt_any, o.mt_low, o.mt_tz, o.mt_lz, mt)
     /\ MaskOK(o.me, o.me_any, o.me_low, o.me_tz, o.me_lz, G!DefMatchEmpty(g))
     /\ MaskOK(o.med, o.med_any, o.med_low, o.med_tz, o.med_lz, G!DefMatchEmptyOrDeleted(g))
     /\ MaskOK(o.mf, o.mf_any, o.mf_low, o.mf_tz, o.mf_lz, G!DefMatchFull(g))
     /\ [i \in 0..(W - 1) |-> o.cv[i + 1]] = G!DefConvert(g)
     \* the portable transcription of the specification predicts the real portable answers exactly
     /\ (W = 8 => mt = G!GenMatchTag(g, o.tag))

Init == l = 1 /\ TLCSet(43, <<>>) /\ TLCSet(44, 0)
Next == /\ l <= Len(Rec) /\ TLCGet(43) = <<>> /\ l' = l + 1
        /\ IF RecOK(Rec[l]) THEN TLCSet(44, TLCGet(44) + 1) ELSE TLCSet(43, <<l>>)
Spec == Init /\ [][Next]_l

Accepted ==
  LET rej == TLCGet(43)
      res == [steps |-> TLCGet(44), lines |-> Len(Rec), drift |-> 0, foreign |-> 0, firstdrift |-> <<>>, firstforeign |-> <<>>,
              rejected |-> IF rej # <<>> THEN 1 ELSE 0, line |-> IF rej # <<>> THEN rej[1] ELSE Len(Rec) + 1,
              reasons |-> IF rej # <<>> THEN <<"a scanner primitive disagrees with its byte-by-byte definition">> ELSE <<>>]
  IN PrintT("HBVRESULT " \o ToJson(res)) /\ rej = <<>>
=============================================================================
