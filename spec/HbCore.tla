------------------------------- MODULE HbCore -------------------------------
(***************************************************************************)
(* Control-byte level specification of hashbrown's RawTable/RawTableInner  *)
(* (src/raw/mod.rs).  Pure operators only: one operator per critical       *)
(* section of the code, parametric in the group width W.  The stateful     *)
(* specifications (exhaustive models, behaviour generators, trace          *)
(* specifications) are built from these operators.                         *)
(*                                                                         *)
(* A table is a record                                                     *)
(*   [mask, ctrl, data, items, gl, es]                                     *)
(*   mask  = bucket_mask (buckets - 1; 0 = the unallocated singleton)      *)
(*   ctrl  = function 0..mask+W -> byte (EMPTY 255, DELETED 128, tag<128)  *)
(*   data  = function 0..mask -> element (NoElem for an unoccupied slot)   *)
(*   items, gl = items / growth_left                                       *)
(*   es    = size_of::<T>() (selects the minimum table size)               *)
(* An element is a 6-tuple <<class, id, value, valueId, pos, tag>>: the     *)
(* key's equality class and identity, the value and its identity, and the  *)
(* hash (h1 position bits, h2 tag) the element hashes to under its table's *)
(* lawful hasher.                                                          *)
(*                                                                         *)
(* Environment record env = [pa, hs]:                                      *)
(*   pa = index of the hasher invocation (within the operation) that       *)
(*        panics, 0 = never;                                               *)
(*   hs = <<>> for a lawful hasher, otherwise the scripted answers the     *)
(*        hasher gives, indexed by invocation number (chaos hasher).       *)
(* Operators that may call the hasher thread the invocation counter n and  *)
(* return a record [t, n, st, dr]: new table, counter, "ok"/"unwound" and  *)
(* the set of element ids dropped by a scope guard.                        *)
(***************************************************************************)
EXTENDS Naturals, Integers, Sequences, FiniteSets, TLC, Bitwise

CONSTANT W          \* group width: 16 (SSE2), 8 (portable); 2 and 4 for small-scope models

EMPTY   == 255
DELETED == 128
IsFull(c)    == c < 128
IsSpecial(c) == c >= 128

NoElem == <<-1, -1, -1, -1, -1, -1>>
EK(e)   == e[1]     \* equality class of the key
EId(e)  == e[2]     \* identity of the stored key object
EV(e)   == e[3]     \* value
EVid(e) == e[4]     \* identity of the stored value object
EH(e)   == [pos |-> e[5], tag |-> e[6]]
MkElem(k, id, v, vid, h) == <<k, id, v, vid, h.pos, h.tag>>

LawfulEnv == [pa |-> 0, hs |-> <<>>]

Min(S) == CHOOSE x \in S : \A y \in S : x <= y
Max(S) == CHOOSE x \in S : \A y \in S : x >= y

---------------------------------------------------------------------------
(* capacity arithmetic: capacity_to_buckets :103, bucket_mask_to_capacity :165 *)

Cap(m) == IF m < 8 THEN m ELSE ((m + 1) \div 8) * 7

RECURSIVE NextPow2From(_, _)
NextPow2From(p, n) == IF p >= n THEN p ELSE NextPow2From(2 * p, n)
NextPow2(n) == NextPow2From(1, n)

MinCap(es) == IF W = 16 /\ es <= 1 THEN 14
              ELSE IF W = 16 /\ es <= 3 THEN 7
              ELSE IF W = 8 /\ es <= 1 THEN 7
              ELSE 3
CapToBuckets(cap0, es) ==
  IF cap0 < 15 THEN
     LET cap == IF MinCap(es) > cap0 THEN MinCap(es) ELSE cap0
     IN IF cap < 4 THEN 4 ELSE IF cap < 8 THEN 8 ELSE 16
  ELSE NextPow2((cap0 * 8) \div 7)

(* TableLayout::new :186 / calculate_layout_for :199 (no overflow at model scale) *)
CtrlAlign(ea) == IF ea > W THEN ea ELSE W
RoundUp(x, a) == ((x + a - 1) \div a) * a
CtrlOffset(es, ea, buckets) == RoundUp(es * buckets, CtrlAlign(ea))
LayoutSize(es, ea, buckets) == CtrlOffset(es, ea, buckets) + buckets + W

---------------------------------------------------------------------------
(* table construction *)

T(m, c, d, it, g, es) == [mask |-> m, ctrl |-> c, data |-> d, items |-> it, gl |-> g, es |-> es]
EmptyCtrl(m) == [i \in 0..(m + W) |-> EMPTY]
EmptyData(m) == [i \in 0..m |-> NoElem]
Singleton(es) == T(0, [i \in 0..(W-1) |-> EMPTY], [i \in 0..0 |-> NoElem], 0, 0, es)
NewTable(buckets, es) == T(buckets - 1, EmptyCtrl(buckets - 1), EmptyData(buckets - 1), 0, Cap(buckets - 1), es)
\* RawTableInner::fallible_with_capacity :1482
WithCapacity(cap, es) == IF cap = 0 THEN Singleton(es) ELSE NewTable(CapToBuckets(cap, es), es)

FullIdx(t) == {i \in 0..t.mask : IsFull(t.ctrl[i])}
Elems(t) == {t.data[i] : i \in FullIdx(t)}

---------------------------------------------------------------------------
(* set_ctrl :2450 -- writes the byte and its mirror *)
SubMask(a, b, m) == (a - b) % (m + 1)
SetCtrl(c, m, i, v) ==
  LET i2 == SubMask(i, W, m) + W
  IN [c EXCEPT ![i] = v, ![i2] = v]

(* probe sequence: probe_seq :2332, ProbeSeq::move_next :83 *)
Pos0(h, m) == h.pos % (m + 1)
NextPos(p, stride, m) == (p + stride) % (m + 1)

\* lowest offset i in 0..W-1 with c[p+i] special (match_empty_or_deleted().lowest_set_bit()); W if none
LowestSpecial(c, p) ==
  LET S == {i \in 0..(W-1) : IsSpecial(c[p + i])}
  IN IF S = {} THEN W ELSE Min(S)
HasEmpty(c, p) == \E i \in 0..(W-1) : c[p + i] = EMPTY

(* fix_insert_slot :1594 -- for tables smaller than a group the masked index may hit a FULL bucket *)
FixInsertSlot(c, m, idx) ==
  IF IsFull(c[idx]) THEN LowestSpecial(c, 0) ELSE idx

(* find_insert_slot :1836 *)
RECURSIVE FindInsertSlotRec(_, _, _, _)
FindInsertSlotRec(c, m, p, stride) ==
  LET i == LowestSpecial(c, p)
  IN IF i < W THEN FixInsertSlot(c, m, (p + i) % (m + 1))
     ELSE FindInsertSlotRec(c, m, NextPos(p, stride + W, m), stride + W)
FindInsertSlot(c, m, h) == FindInsertSlotRec(c, m, Pos0(h, m), 0)

(* Group::match_tag: exact on the SIMD back-ends.  The portable 8-byte word scanner (generic.rs) may additionally report
   a byte that differs from the tag only in its lowest bit, above a true match (HbGroup.GenMatchTag, checked against the
   definition in MC_group); the false positive is absorbed by the key comparison and is observable only under an
   unlawful hasher, where STRICT validation of the portable build needs it. *)
RECURSIVE TmBorrow(_, _, _, _)
TmBorrow(c, p, tag, i) == IF i = 0 THEN 0 ELSE IF (c[p + i - 1] ^^ tag) < 1 + TmBorrow(c, p, tag, i - 1) THEN 1 ELSE 0
TagMatch(c, p, tag) ==
  IF W # 8 THEN {i \in 0..(W-1) : c[p + i] = tag}
  ELSE {i \in 0..(W-1) : ((c[p + i] ^^ tag) + 256 - 1 - TmBorrow(c, p, tag, i)) % 256 >= 128 /\ (c[p + i] ^^ tag) < 128}

(* find_inner :1893 with a lawful eq on the key class: index or -1 *)
RECURSIVE FindRec(_, _, _, _, _, _, _)
FindRec(c, d, m, k, tag, p, stride) ==
  LET M == {i \in TagMatch(c, p, tag) : EK(d[(p + i) % (m + 1)]) = k}
  IN IF M # {} THEN (p + Min(M)) % (m + 1)
     ELSE IF HasEmpty(c, p) THEN -1
     ELSE FindRec(c, d, m, k, tag, NextPos(p, stride + W, m), stride + W)
Find(t, k, h) == FindRec(t.ctrl, t.data, t.mask, k, h.tag, Pos0(h, t.mask), 0)

(* find_inner with an arbitrary predicate given as the SET of bucket indices whose element it accepts *)
RECURSIVE FindPredRec(_, _, _, _, _, _)
FindPredRec(c, m, acc, tag, p, stride) ==
  LET M == {i \in TagMatch(c, p, tag) : ((p + i) % (m + 1)) \in acc}
  IN IF M # {} THEN (p + Min(M)) % (m + 1)
     ELSE IF HasEmpty(c, p) THEN -1
     ELSE FindPredRec(c, m, acc, tag, NextPos(p, stride + W, m), stride + W)
FindPred(t, acc, h) == FindPredRec(t.ctrl, t.mask, acc, h.tag, Pos0(h, t.mask), 0)

(* find_or_find_insert_slot_inner :1679 -- <<found, index>> *)
RECURSIVE FoFisRec(_, _, _, _, _, _, _, _)
FoFisRec(c, d, m, k, tag, p, stride, slot) ==
  LET M == {i \in TagMatch(c, p, tag) : EK(d[(p + i) % (m + 1)]) = k}
      i0 == LowestSpecial(c, p)
      slot2 == IF slot = -1 /\ i0 < W THEN (p + i0) % (m + 1) ELSE slot
  IN IF M # {} THEN <<TRUE, (p + Min(M)) % (m + 1)>>
     ELSE IF HasEmpty(c, p) THEN <<FALSE, FixInsertSlot(c, m, slot2)>>
     ELSE FoFisRec(c, d, m, k, tag, NextPos(p, stride + W, m), stride + W, slot2)
FoFis(t, k, h) == FoFisRec(t.ctrl, t.data, t.mask, k, h.tag, Pos0(h, t.mask), 0, -1)

RECURSIVE FoFisPredRec(_, _, _, _, _, _, _)
FoFisPredRec(c, m, acc, tag, p, stride, slot) ==
  LET M == {i \in TagMatch(c, p, tag) : ((p + i) % (m + 1)) \in acc}
      i0 == LowestSpecial(c, p)
      slot2 == IF slot = -1 /\ i0 < W THEN (p + i0) % (m + 1) ELSE slot
  IN IF M # {} THEN <<TRUE, (p + Min(M)) % (m + 1)>>
     ELSE IF HasEmpty(c, p) THEN <<FALSE, FixInsertSlot(c, m, slot2)>>
     ELSE FoFisPredRec(c, m, acc, tag, NextPos(p, stride + W, m), stride + W, slot2)
FoFisPred(t, acc, h) == FoFisPredRec(t.ctrl, t.mask, acc, h.tag, Pos0(h, t.mask), 0, -1)

(* RawIterHash :4021 -- bucket indices in probe order whose control byte equals the tag,
   stopping after the first group containing EMPTY *)
RECURSIVE IterHashRec(_, _, _, _, _, _)
IterHashRec(c, m, tag, p, stride, acc) ==
  LET Ms == TagMatch(c, p, tag)
      RECURSIVE Asc(_, _)
      Asc(S, a) == IF S = {} THEN a ELSE Asc(S \ {Min(S)}, Append(a, (p + Min(S)) % (m + 1)))
      acc2 == Asc(Ms, acc)
  IN IF HasEmpty(c, p) THEN acc2
     ELSE IterHashRec(c, m, tag, NextPos(p, stride + W, m), stride + W, acc2)
IterHash(t, h) == IterHashRec(t.ctrl, t.mask, h.tag, Pos0(h, t.mask), 0, <<>>)

---------------------------------------------------------------------------
(* record_item_insert_at :2342 / insert_in_slot :1176 *)
InsertInSlot(t, idx, e) ==
  [t EXCEPT !.ctrl = SetCtrl(t.ctrl, t.mask, idx, e[6]),
            !.data[idx] = e,
            !.items = t.items + 1,
            !.gl = IF t.ctrl[idx] = EMPTY THEN t.gl - 1 ELSE t.gl]

(* erase :3093 -- DELETED unless the bucket is in a run of fewer than W non-EMPTY bytes *)
EraseAt(t, idx) ==
  LET m == t.mask
      ib == SubMask(idx, W, m)
      Sb == {i \in 0..(W-1) : t.ctrl[ib + i] = EMPTY}
      LZ == IF Sb = {} THEN W ELSE (W - 1) - Max(Sb)       \* empty_before.leading_zeros()
      Sa == {i \in 0..(W-1) : t.ctrl[idx + i] = EMPTY}
      TZ == IF Sa = {} THEN W ELSE Min(Sa)                 \* empty_after.trailing_zeros()
      del == LZ + TZ >= W
  IN [t EXCEPT !.ctrl = SetCtrl(t.ctrl, m, idx, IF del THEN DELETED ELSE EMPTY),
               !.gl = IF del THEN t.gl ELSE t.gl + 1,
               !.items = t.items - 1,
               !.data[idx] = NoElem]

---------------------------------------------------------------------------
(* hasher invocation *)
R(t, n, st, dr) == [t |-> t, n |-> n, st |-> st, dr |-> dr]
Panics(env, n) == env.pa # 0 /\ n = env.pa
HashOf(env, e, n) == IF env.hs = <<>> THEN EH(e) ELSE env.hs[n]

(* resize_inner :2767 -- every FULL bucket of the old table, ascending, is re-inserted by its hash;
   a hasher panic frees the new table (prepare_resize guard :2590) and leaves the old one untouched *)
RECURSIVE ResizeLoop(_, _, _, _, _)
ResizeLoop(old, new, i, env, n) ==
  IF i > old.mask THEN R(new, n, "ok", {})
  ELSE IF ~IsFull(old.ctrl[i]) THEN ResizeLoop(old, new, i + 1, env, n)
  ELSE IF Panics(env, n + 1) THEN R(old, n + 1, "unwound", {})
  ELSE LET e == old.data[i]
           h == HashOf(env, e, n + 1)
           idx == FindInsertSlot(new.ctrl, new.mask, h)
           c2 == SetCtrl(new.ctrl, new.mask, idx, h.tag)
       IN ResizeLoop(old, [new EXCEPT !.ctrl = c2, !.data[idx] = e], i + 1, env, n + 1)
Resize(t, cap, env, n) ==
  LET nt0 == WithCapacity(cap, t.es)
      r == IF t.items = 0 THEN R(nt0, n, "ok", {}) ELSE ResizeLoop(t, nt0, 0, env, n)
  IN IF r.st = "ok" THEN R([r.t EXCEPT !.items = t.items, !.gl = nt0.gl - t.items], r.n, "ok", {})
     ELSE r

(* prepare_rehash_in_place :1967 *)
Prep(t) ==
  LET m == t.mask
      conv(b) == IF IsFull(b) THEN DELETED ELSE EMPTY
      c1 == IF m + 1 < W
            THEN [i \in 0..(m + W) |-> IF i < W THEN conv(t.ctrl[i]) ELSE t.ctrl[i]]
            ELSE [i \in 0..(m + W) |-> IF i <= m THEN conv(t.ctrl[i]) ELSE t.ctrl[i]]
      c2 == IF m + 1 < W
            THEN [i \in 0..(m + W) |-> IF i >= W THEN c1[i - W] ELSE c1[i]]
            ELSE [i \in 0..(m + W) |-> IF i > m THEN c1[i - (m + 1)] ELSE c1[i]]
  IN [t EXCEPT !.ctrl = c2]

(* is_in_same_group :2349 *)
ProbeIndex(pos, p0, m) == ((pos - p0) % (m + 1)) \div W

(* scope guard of rehash_in_place :2876 (after the fix: the loop runs whether or not T needs drop) *)
RECURSIVE GuardLoop(_, _, _)
GuardLoop(t, i, dr) ==
  IF i > t.mask THEN [t |-> t, dr |-> dr]
  ELSE IF t.ctrl[i] = DELETED
       THEN GuardLoop([t EXCEPT !.ctrl = SetCtrl(t.ctrl, t.mask, i, EMPTY),
                                !.items = t.items - 1,
                                !.data[i] = NoElem], i + 1, dr \cup {EId(t.data[i]), EVid(t.data[i])})
       ELSE GuardLoop(t, i + 1, dr)
RehashGuard(t, n) ==
  LET r == GuardLoop(t, 0, {})
  IN R([r.t EXCEPT !.gl = Cap(r.t.mask) - r.t.items], n, "unwound", r.dr)

(* rehash_in_place :2864 *)
RECURSIVE RehashInner(_, _, _, _)
RECURSIVE RehashOuter(_, _, _, _)
RehashInner(t, i, env, n) ==
  IF Panics(env, n + 1) THEN RehashGuard(t, n + 1)
  ELSE
  LET m == t.mask
      e == t.data[i]
      h == HashOf(env, e, n + 1)
      ni == FindInsertSlot(t.ctrl, m, h)
      p0 == Pos0(h, m)
  IN IF ProbeIndex(i, p0, m) = ProbeIndex(ni, p0, m)
     THEN RehashOuter([t EXCEPT !.ctrl = SetCtrl(t.ctrl, m, i, h.tag)], i + 1, env, n + 1)
     ELSE LET prev == t.ctrl[ni]
              c1 == SetCtrl(t.ctrl, m, ni, h.tag)
          IN IF prev = EMPTY
             THEN RehashOuter([t EXCEPT !.ctrl = SetCtrl(c1, m, i, EMPTY), !.data[ni] = e, !.data[i] = NoElem], i + 1, env, n + 1)
             ELSE RehashInner([t EXCEPT !.ctrl = c1, !.data[ni] = e, !.data[i] = t.data[ni]], i, env, n + 1)
RehashOuter(t, i, env, n) ==
  IF i > t.mask THEN R([t EXCEPT !.gl = Cap(t.mask) - t.items], n, "ok", {})
  ELSE IF t.ctrl[i] # DELETED THEN RehashOuter(t, i + 1, env, n)
  ELSE RehashInner(t, i, env, n)
RehashInPlace(t, env, n) == RehashOuter(Prep(t), 0, env, n)

(* reserve_rehash_inner :2625 *)
ReserveRehash(t, additional, env, n) ==
  LET ni == t.items + additional
      fc == Cap(t.mask)
  IN IF ni <= fc \div 2 THEN RehashInPlace(t, env, n)
     ELSE Resize(t, IF ni > fc + 1 THEN ni ELSE fc + 1, env, n)
(* reserve :933 *)
Reserve(t, additional, env, n) ==
  IF additional > t.gl THEN ReserveRehash(t, additional, env, n) ELSE R(t, n, "ok", {})

(* shrink_to :867 *)
ShrinkTo(t, minCap, env, n) ==
  LET ms == IF t.items > minCap THEN t.items ELSE minCap
  IN IF ms = 0 THEN R(Singleton(t.es), n, "ok", {})
     ELSE LET mb == CapToBuckets(ms, t.es)
          IN IF mb < t.mask + 1
             THEN (IF t.items = 0 THEN R(NewTable(mb, t.es), n, "ok", {}) ELSE Resize(t, ms, env, n))
             ELSE R(t, n, "ok", {})

(* clear_no_drop :3051 *)
ClearNoDrop(t) ==
  IF t.mask = 0 THEN [t EXCEPT !.items = 0, !.gl = Cap(0)]
  ELSE T(t.mask, EmptyCtrl(t.mask), EmptyData(t.mask), 0, Cap(t.mask), t.es)
(* clear :850 -- returns immediately when empty (tombstones stay) *)
Clear(t) == IF t.items = 0 THEN t ELSE ClearNoDrop(t)

---------------------------------------------------------------------------
(* RawTable::insert :1052 -- find_insert_slot first; grows only if growth_left = 0 and the slot is EMPTY *)
RawInsert(t, e, h, env, n) ==
  LET s0 == FindInsertSlot(t.ctrl, t.mask, h)
  IN IF t.gl = 0 /\ t.ctrl[s0] = EMPTY
     THEN LET r == Reserve(t, 1, env, n)
          IN IF r.st = "ok" THEN R(InsertInSlot(r.t, FindInsertSlot(r.t.ctrl, r.t.mask, h), e), r.n, "ok", {})
             ELSE r
     ELSE R(InsertInSlot(t, s0, e), n, "ok", {})

(* find_or_find_insert_slot :1140 -- reserve(1) BEFORE searching *)
ReserveThenFoFis(t, k, h, env, n) ==
  LET r == Reserve(t, 1, env, n)
  IN IF r.st = "ok" THEN [r |-> r, f |-> FoFis(r.t, k, h)] ELSE [r |-> r, f |-> <<FALSE, -1>>]

---------------------------------------------------------------------------
(* ascending sequence of the FULL buckets (iteration order of RawIter / FullBucketsIndices) *)
RECURSIVE AscFrom(_, _, _)
AscFrom(t, i, acc) == IF i > t.mask THEN acc ELSE AscFrom(t, i + 1, IF IsFull(t.ctrl[i]) THEN Append(acc, i) ELSE acc)
AscFull(t) == IF t.mask = 0 THEN <<>> ELSE AscFrom(t, 0, <<>>)

(* clone :3154, clone_from :3187, clone_from_impl :3290.  pc = index of the ELEMENT clone that panics (0 = never).
   Clones get identity 0 (identities are compared separately).  Result: [t, st, made, undone]:
   made = clones created, undone = clones dropped again by the inner scope guard. *)
CloneElem(e) == <<e[1], 0, e[3], 0, e[5], e[6]>>
RECURSIVE CloneLoop(_, _, _, _, _)
CloneLoop(dst, src, idxs, n, pc) ==
  IF idxs = <<>> THEN [t |-> [dst EXCEPT !.items = src.items, !.gl = src.gl], st |-> "ok", made |-> n, undone |-> 0]   \* counters copied last
  ELSE IF pc # 0 /\ n + 1 = pc THEN [t |-> dst, st |-> "unwound", made |-> n, undone |-> n]   \* guard drops buckets 0..index of the clones made
  ELSE CloneLoop([dst EXCEPT !.data[Head(idxs)] = CloneElem(src.data[Head(idxs)])], src, Tail(idxs), n + 1, pc)
\* new_uninitialized(same buckets) + control bytes copied verbatim (tombstones included) + elements cloned slot by slot
CloneFromImpl(src, pc) ==
  CloneLoop([NewTable(src.mask + 1, src.es) EXCEPT !.ctrl = src.ctrl], src, AscFull(src), 0, pc)
\* RawTable::clone: a panic drops the half-built table (items is still 0, so only the block is freed)
CloneTable(src, pc) ==
  IF src.mask = 0 THEN [t |-> Singleton(src.es), st |-> "ok", made |-> 0, undone |-> 0] ELSE CloneFromImpl(src, pc)
\* RawTable::clone_from: source unallocated => become the singleton; otherwise drop the own elements, reallocate iff the
\* bucket counts differ, clone_from_impl; on a panic the outer guard leaves the target empty (clear_no_drop)
CloneFrom(dst, src, pc) ==
  IF src.mask = 0 THEN [t |-> Singleton(dst.es), st |-> "ok", made |-> 0, undone |-> 0]
  ELSE LET r == CloneFromImpl(src, pc)
       IN IF r.st = "ok" THEN r ELSE [r EXCEPT !.t = NewTable(src.mask + 1, dst.es)]

---------------------------------------------------------------------------
(* retain :  iterate the buckets that were FULL at creation, erase the rejected ones as they are yielded *)
RECURSIVE EraseSeq(_, _, _)
EraseSeq(t, idxs, keepIdx) ==
  IF idxs = <<>> THEN t
  ELSE LET i == Head(idxs) IN EraseSeq(IF i \in keepIdx THEN t ELSE EraseAt(t, i), Tail(idxs), keepIdx)

---------------------------------------------------------------------------
(* Structural invariant (DESIGN 3.4).  Strict = TRUE demands the exact growth accounting. *)
NumFull(t) == Cardinality(FullIdx(t))
NumDel(t)  == Cardinality({i \in 0..t.mask : t.ctrl[i] = DELETED})
NumEmpty(t) == Cardinality({i \in 0..t.mask : t.ctrl[i] = EMPTY})
IsPow2(x) == x \in {1, 2, 4, 8, 16, 32, 64, 128, 256, 512, 1024, 2048, 4096, 8192, 16384, 32768, 65536}

I1(t) == /\ IsPow2(t.mask + 1)
         /\ DOMAIN t.ctrl = (IF t.mask = 0 THEN 0..(W - 1) ELSE 0..(t.mask + W)) /\ DOMAIN t.data = 0..t.mask
         /\ \A i \in DOMAIN t.ctrl : t.ctrl[i] \in 0..255
         /\ t.mask = 0 => (\A i \in 0..(W-1) : t.ctrl[i] = EMPTY)
         /\ (t.mask # 0) => t.mask + 1 >= 4
I2(t) == IF t.mask = 0 THEN TRUE
         ELSE IF t.mask + 1 < W
              THEN /\ \A i \in 0..t.mask : t.ctrl[W + i] = t.ctrl[i]
                   /\ \A i \in (t.mask+1)..(W-1) : t.ctrl[i] = EMPTY
              ELSE \A i \in 0..(W-1) : t.ctrl[t.mask + 1 + i] = t.ctrl[i]
I3(t) == t.items = NumFull(t)
I4(t) == NumEmpty(t) >= 1
\* strict: the exact accounting of the current load-factor policy.  Otherwise only what safety needs, whatever the
\* policy: consuming growth_left never-used slots must still leave one EMPTY bucket (probes terminate)
I5(t, strict) == IF strict THEN t.gl = Cap(t.mask) - t.items - NumDel(t)
                 ELSE t.gl >= 0 /\ (IF t.mask = 0 THEN t.gl = 0 ELSE t.gl <= NumEmpty(t) - 1)
I6F(t, F) == \A i \in F : t.ctrl[i] = t.data[i][6]
I6(t) == I6F(t, FullIdx(t))
\* reachability: probing for the occupant's hash reaches its bucket before a group with an EMPTY byte
RECURSIVE ReachRec(_, _, _, _, _)
ReachRec(c, m, target, p, stride) ==
  IF (target - p) % (m + 1) < W THEN TRUE          \* the group loaded at p covers the target bucket
  ELSE IF HasEmpty(c, p) THEN FALSE
  ELSE IF stride > m THEN FALSE
  ELSE ReachRec(c, m, target, NextPos(p, stride + W, m), stride + W)
I7F(t, F) == \A i \in F : ReachRec(t.ctrl, t.mask, i, Pos0(EH(t.data[i]), t.mask), 0)
I7(t) == I7F(t, FullIdx(t))
I8F(t, F) == Cardinality({EK(t.data[i]) : i \in F}) = Cardinality(F)
I8(t) == I8F(t, FullIdx(t))
I9(t) == /\ \A i \in 0..t.mask : IsFull(t.ctrl[i]) <=> (t.data[i] # NoElem)
\* safety subset (holds even under unlawful Hash/Eq)
InvSafe(t) == I1(t) /\ I2(t) /\ I3(t) /\ I4(t) /\ I5(t, FALSE) /\ I9(t)
\* lawful tables (HashTable: duplicates allowed, so no I8)
InvTable(t, strict) == I1(t) /\ I2(t) /\ I3(t) /\ I4(t) /\ I5(t, strict) /\ I6(t) /\ I7(t) /\ I9(t)
InvMap(t, strict) == InvTable(t, strict) /\ I8(t)
\* names of the violated clauses (diagnostics)
InvDiag(t, strict, map) ==
  IF ~I1(t) THEN {"I1 shape"} ELSE
  LET F == FullIdx(t)
      nd == NumDel(t)
      i3 == t.items = Cardinality(F)
      i4 == NumEmpty(t) >= 1
      i5 == IF strict THEN t.gl = Cap(t.mask) - t.items - nd
            ELSE t.gl >= 0 /\ (IF t.mask = 0 THEN t.gl = 0 ELSE t.gl <= NumEmpty(t) - 1)
      i9 == I9(t)
  IN
  (IF I2(t) THEN {} ELSE {"I2 mirror bytes"}) \cup (IF i3 THEN {} ELSE {"I3 items = number of FULL bytes"})
  \cup (IF i4 THEN {} ELSE {"I4 an EMPTY bucket exists"}) \cup (IF i5 THEN {} ELSE {"I5 growth_left accounting"})
  \cup (IF i9 THEN {} ELSE {"I9 FULL <=> slot holds an element"})
  \cup (IF i3 /\ i4 /\ i9 THEN
          (IF I6F(t, F) THEN {} ELSE {"I6 control byte = tag of occupant"}) \cup (IF I7F(t, F) THEN {} ELSE {"I7 occupant reachable by probing"})
          \cup (IF map /\ ~I8F(t, F) THEN {"I8 duplicate key"} ELSE {})
        ELSE {})
=============================================================================
