------------------------------- MODULE HbGroup -------------------------------
(***************************************************************************)
(* The control-byte group scanner (src/control/group/*.rs, bitmask.rs).     *)
(* Part 1: the byte-by-byte DEFINITION of every primitive - this is the     *)
(* meaning the table algorithms of HbCore rely on.                          *)
(* Part 2: a transcription of the portable 64-bit word tricks of generic.rs *)
(* as byte-level borrow/carry chains (exact semantics of the wrapping       *)
(* subtraction/addition without 64-bit integers).                           *)
(* A group is a function 0..GW-1 -> byte; masks are sets of byte positions. *)
(***************************************************************************)
EXTENDS Naturals, Integers, FiniteSets, Bitwise

CONSTANT GW

EMPTYB == 255
DELETEDB == 128
ValidByte(b) == b < 128 \/ b = DELETEDB \/ b = EMPTYB
Idx == 0..(GW - 1)

\* ---- Part 1: definitions
DefMatchTag(g, tag) == {i \in Idx : g[i] = tag}
DefMatchEmpty(g) == {i \in Idx : g[i] = EMPTYB}
DefMatchEmptyOrDeleted(g) == {i \in Idx : g[i] >= 128}
DefMatchFull(g) == {i \in Idx : g[i] < 128}
DefConvert(g) == [i \in Idx |-> IF g[i] >= 128 THEN EMPTYB ELSE DELETEDB]
\* BitMask queries (in units of bytes)
MinS(S) == CHOOSE x \in S : \A y \in S : x <= y
MaxS(S) == CHOOSE x \in S : \A y \in S : x >= y
LowestSetBit(S) == IF S = {} THEN -1 ELSE MinS(S)
TrailingZeros(S) == IF S = {} THEN GW ELSE MinS(S)
LeadingZeros(S) == IF S = {} THEN GW ELSE (GW - 1) - MaxS(S)

\* ---- Part 2: the portable word tricks, byte by byte (little-endian byte i = bits 8i..8i+7)
\* match_tag: cmp = g ^ repeat(tag); (cmp - 0x01..01) & ~cmp & 0x80..80
Cmp(g, tag, i) == g[i] ^^ tag
RECURSIVE Borrow(_, _, _)
Borrow(g, tag, i) == IF i = 0 THEN 0 ELSE IF Cmp(g, tag, i - 1) < 1 + Borrow(g, tag, i - 1) THEN 1 ELSE 0
SubByte(g, tag, i) == (Cmp(g, tag, i) + 256 - 1 - Borrow(g, tag, i)) % 256
GenMatchTag(g, tag) == {i \in Idx : SubByte(g, tag, i) >= 128 /\ Cmp(g, tag, i) < 128}
\* match_empty: g & (g << 1) & 0x80..80  -- bit 7 and bit 6 of the same byte (bit 6 shifted up within the byte)
GenMatchEmpty(g) == {i \in Idx : (g[i] & 128) # 0 /\ (g[i] & 64) # 0}
GenMatchEmptyOrDeleted(g) == {i \in Idx : (g[i] & 128) # 0}
GenMatchFull(g) == Idx \ GenMatchEmptyOrDeleted(g)            \* invert() = xor with 0x80..80
\* convert: full = ~g & 0x80..80; result = ~full + (full >> 7): per byte 0x7F + 1 = 0x80 (no carry out) or 0xFF + 0
GenConvert(g) == [i \in Idx |-> IF (g[i] & 128) = 0 THEN 128 ELSE 255]

\* ---- what C18 allows the portable tag match to report
AllowedTagMatch(g, tag, R) ==
  /\ DefMatchTag(g, tag) \subseteq R
  /\ \A i \in R \ DefMatchTag(g, tag) : (g[i] ^^ tag) = 1 /\ (\E j \in DefMatchTag(g, tag) : j < i)
=============================================================================
