SPECIFICATION Spec
CONSTANTS
  W = 8
  NK = 4
  Poss = {0, 3}
  Tags = {0, 1}
  OpNames = {"insert", "remove", "e_or_insert", "rc_or_insert", "shrink_to_fit", "e_replace_none", "clear"}
  Vals = {1}
  KIds = {1}
  Es = 8
  MaxB = 16
  MaxPa = 0
  TRem = {}
  FixedPlan = 0
INVARIANTS Inv Refines LookupOK ChkOK CapacityOK Bounded
CHECK_DEADLOCK FALSE
