SPECIFICATION FSpec
CONSTANTS
  W = 2
  NK = 3
  Poss = {0}
  Tags = {0, 1}
  Es = 8
  MaxPa = 4
  TK = 0
  TRem = {}
  OpNames = {"t_insert_unique", "t_remove", "t_entry_or_insert", "t_entry_insert", "t_entry_drop", "t_shrink_to_fit", "reserve"}
INVARIANTS Inv Refines ChkOK LookupInv IterHashInv
CHECK_DEADLOCK FALSE
