----------------------------- MODULE HbZstTrace -----------------------------
(***************************************************************************)
(* Trace specification for HashTable<T> with a ZERO-SIZED T (C02: element   *)
(* layouts).  All elements are indistinguishable, so the abstract content   *)
(* of a table is just the NUMBER of stored elements; the concrete machine   *)
(* is the same control-byte table (HbCore / HbTableOps) with the element    *)
(* tuple <<0, 0, 0, 0, pos, tag>> of the one hash every element has.        *)
(* PROPERTY: invariant on every observed state, len = items = count, the    *)
(* result of every call, allocator ledger.  STRICT: the concrete operators  *)
(* reproduce the observed control bytes (drift only).                       *)
(***************************************************************************)
EXTENDS HbTableOps, Json, IOUtils, TLCExt, SequencesExt

Rec == ndJsonDeserialize(IOEnv.TRACE)
VARIABLES l, hd, tb, tx, cnt, lkb
tvars == <<l, hd, tb, tx, cnt, lkb>>

ObsTable(s, es) ==
  [mask |-> s.m, ctrl |-> [i \in 0..(Len(s.c) - 1) |-> s.c[i + 1]], data |-> [i \in 0..(Len(s.d) - 1) |-> s.d[i + 1]],
   items |-> s.it, gl |-> s.g, es |-> es]
ObsX(s) == [lv |-> s.lv = 1, len |-> s.len, cap |-> s.cap, asz |-> s.asz]
Count(s, x) == Cardinality({i \in 1..Len(s) : s[i] = x})
BagEq(s1, s2) == Len(s1) = Len(s2) /\ \A x \in SeqToSet(s1) \cup SeqToSet(s2) : Count(s1, x) = Count(s2, x)
BlockOf(t) == <<LayoutSize(0, hd.ea, t.mask + 1), CtrlAlign(hd.ea)>>
RECURSIVE LiveBlocks(_, _, _)
LiveBlocks(tbs, txs, i) ==
  IF i > Len(tbs) THEN <<>>
  ELSE (IF txs[i].lv /\ tbs[i].mask # 0 THEN <<BlockOf(tbs[i])>> ELSE <<>>) \o LiveBlocks(tbs, txs, i + 1)
MinI(a, b) == IF a < b THEN a ELSE b

Init == /\ l = 1 /\ hd = [W |-> W] /\ tb = <<>> /\ tx = <<>> /\ cnt = <<>> /\ lkb = <<>>
        /\ TLCSet(42, 0) /\ TLCSet(43, <<>>) /\ TLCSet(44, 0) /\ TLCSet(45, <<>>)
Fail(line, what) == IF TLCGet(43) = <<>> THEN TLCSet(43, <<line, what>>) ELSE TRUE

ResetStep(e) ==
  /\ hd' = e
  /\ tb' = [i \in 1..e.nt |-> Singleton(0)]
  /\ tx' = [i \in 1..e.nt |-> [lv |-> FALSE, len |-> 0, cap |-> 0, asz |-> 0]]
  /\ cnt' = [i \in 1..e.nt |-> 0] /\ lkb' = <<>>

OpStep(e) ==
  LET t == e.t
      u == e.u
      pre == tb[t]
      n == cnt[t]
      h == [pos |-> hd.plans[1][1][1], tag |-> hd.plans[1][1][2]]
      obsT == [i \in 1..hd.nt |-> ObsTable(e.s[i], 0)]
      obsX == [i \in 1..hd.nt |-> ObsX(e.s[i])]
      sel == 0 \in SeqToSet(e.ks)
      found == n > 0
      take(j) == IF j < 0 THEN n ELSE MinI(j, n)
      \* <<count afterwards, the reported result is the reference result>>
      ab ==
        CASE e.op \in {"new", "with_capacity", "drop", "clear", "into_iter"} ->
               <<0, (e.op = "into_iter" => Len(e.y) = take(e.j))>>
          [] e.op = "t_insert_unique" -> <<n + 1, e.r = <<0>>>>
          [] e.op \in {"t_find", "t_find_mut", "t_occ_get_mut"} -> <<n, e.r = (IF found THEN <<0, 0>> ELSE <<-1, -1>>)>>
          [] e.op = "t_entry_drop" -> <<n, e.r = (IF found THEN <<1, 0, 0>> ELSE <<0, -1, -1>>)>>
          [] e.op = "t_entry_or_insert" -> <<IF found THEN n ELSE n + 1, e.r[1] = (IF found THEN 1 ELSE 0)>>
          [] e.op = "t_remove" -> <<IF found THEN n - 1 ELSE n, e.r = (IF found THEN <<0, 0>> ELSE <<-1, -1>>)>>
          [] e.op = "t_remove_reinsert" -> <<n, e.r = (IF found THEN <<0, 0>> ELSE <<-1, -1>>)>>
          [] e.op = "t_iter_hash" -> <<n, Len(e.y) = n>>
          [] e.op = "retain" -> <<IF sel THEN n ELSE 0, Len(e.y) = n>>
          [] e.op = "t_extract_if" ->
               LET k == IF sel THEN take(e.j) ELSE 0
               IN <<n - k, Len(e.y) = k /\ Len(e.r) <= n /\ ((e.j < 0 \/ Len(e.y) < e.j) => Len(e.r) = n)>>
          [] e.op = "drain" -> <<0, Len(e.y) = (IF e.n = 2 THEN n ELSE take(e.j))>>
          [] e.op = "iter" -> <<n, Cardinality({i \in 1..Len(e.y) : e.y[i][1] # -7 /\ e.y[i][1] # -9}) = n>>
          [] e.op \in {"reserve", "shrink_to", "t_shrink_to_fit", "try_reserve", "clone"} -> <<n, TRUE>>
          [] e.op = "clone_from" -> <<cnt[u], TRUE>>
          [] OTHER -> <<n, FALSE>>
      newCnt == [i \in 1..hd.nt |-> IF e.op = "clone" /\ i = u THEN n ELSE IF i = t THEN ab[1] ELSE cnt[i]]
      lvAfter(i) == IF e.op = "drop" /\ i = t THEN FALSE
                    ELSE IF e.op \in {"new", "with_capacity"} /\ i = t THEN TRUE
                    ELSE IF e.op = "clone" /\ i = u THEN TRUE ELSE tx[i].lv
      forgot == e.op = "drain" /\ e.n = 1
      lkb2 == IF forgot /\ pre.mask # 0 THEN Append(lkb, BlockOf(pre)) ELSE lkb
      invd == UNION {InvDiag(obsT[i], FALSE, FALSE) : i \in {j \in 1..hd.nt : lvAfter(j) /\ obsT[j] # tb[j]}}
      bad == (IF e.pn # "" THEN {"unexpected panic inside a safe call: " \o e.pn} ELSE {})
             \cup {"invariant violated on the observed state: " \o m : m \in invd}
             \cup (IF ~ab[2] THEN {"result differs from the abstract specification"} ELSE {})
             \cup (IF \E i \in 1..hd.nt : lvAfter(i) /\ (obsX[i].len # newCnt[i] \/ obsT[i].items # newCnt[i] \/ obsX[i].cap < obsX[i].len)
                   THEN {"len() / stored element count differs from the abstract specification"} ELSE {})
             \cup (IF \E i \in 1..hd.nt : obsX[i].lv # lvAfter(i) THEN {"liveness of tables"} ELSE {})
             \cup (IF ~BagEq(e.bl, lkb2 \o LiveBlocks(obsT, obsX, 1)) THEN {"allocator ledger"} ELSE {})
             \cup (IF \E i \in 1..hd.nt : lvAfter(i) /\ obsX[i].asz # (IF obsT[i].mask = 0 THEN 0 ELSE LayoutSize(0, hd.ea, obsT[i].mask + 1))
                   THEN {"allocation_size"} ELSE {})
             \cup (IF e.op = "reserve" /\ obsX[t].cap < obsX[t].len + e.n THEN {"capacity contract of reserve"} ELSE {})
      exp == CASE e.op \in {"drop", "clone"} -> pre
               [] e.op = "clone_from" -> IF tb[u].mask = 0 THEN Singleton(0) ELSE tb[u]
               [] e.op = "new" -> Singleton(0)
               [] OTHER -> TableOp([e EXCEPT !.k = 0, !.id = 0, !.v = 0], pre, h, LawfulEnv).t
      strictOK == CASE e.op = "drop" -> TRUE
                    [] e.op = "clone" -> obsT[u] = pre /\ obsT[t] = pre
                    [] e.op = "try_reserve" /\ e.r[1] # 0 -> obsT[t] = pre
                    [] OTHER -> obsT[t] = exp
  IN /\ IF bad # {} THEN Fail(l, bad) ELSE TRUE
     /\ IF bad = {} /\ ~strictOK THEN TLCSet(42, TLCGet(42) + 1) /\ (IF TLCGet(45) = <<>> THEN TLCSet(45, <<l, e.op>>) ELSE TRUE) ELSE TRUE
     /\ TLCSet(44, TLCGet(44) + 1)
     /\ tb' = obsT /\ tx' = obsX /\ cnt' = newCnt /\ lkb' = lkb2
     /\ UNCHANGED hd

EndStep(e) ==
  /\ IF e.errs # <<>> \/ e.nb # Len(lkb) THEN Fail(l, {"observer errors or leaked blocks at the end"}) ELSE TRUE
  /\ UNCHANGED <<hd, tb, tx, cnt, lkb>>

Next == /\ l <= Len(Rec) /\ TLCGet(43) = <<>> /\ l' = l + 1
        /\ LET e == Rec[l] IN CASE e.op = "reset" -> ResetStep(e) [] e.op = "end" -> EndStep(e) [] OTHER -> OpStep(e)
Spec == Init /\ [][Next]_tvars

SetToSeqStr(S) == IF S = {} THEN <<>> ELSE SetToSeq(S)
Accepted ==
  LET rej == TLCGet(43)
      consumed == TLCGet("stats").diameter = Len(Rec) + 1
      res == [steps |-> TLCGet(44), lines |-> Len(Rec), drift |-> TLCGet(42),
              firstdrift |-> IF TLCGet(45) = <<>> THEN <<>> ELSE <<ToString(TLCGet(45)[1]), TLCGet(45)[2]>>,
              foreign |-> 0, firstforeign |-> <<>>,
              rejected |-> IF rej # <<>> THEN 1 ELSE IF ~consumed THEN 2 ELSE 0,
              line |-> IF rej # <<>> THEN rej[1] ELSE TLCGet("stats").diameter,
              reasons |-> IF rej # <<>> THEN SetToSeqStr(rej[2]) ELSE IF ~consumed THEN <<"trace not consumed">> ELSE <<>>]
  IN PrintT("HBVRESULT " \o ToJson(res)) /\ rej = <<>> /\ consumed
=============================================================================
