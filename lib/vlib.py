"""Shared machinery of the ./check driver.

All verdicts come from TLC (exhaustive models, trace validation) and from the exit status of the
harness; this file only orchestrates: build the harness from /repo's working tree, run model
configurations, run drivers / replays, hand the recorded traces to TLC, collect evidence.
"""
import json
import os
import re
import shutil
import signal
import subprocess
import sys
import time

VERIF = os.path.dirname(os.path.dirname(os.path.abspath(__file__)))
SPEC = os.path.join(VERIF, "spec")
HARNESS = os.path.join(VERIF, "harness")
WORK = os.path.join(VERIF, ".work")
TRACES = os.path.join(VERIF, "traces")
REPLAYS = os.path.join(VERIF, "replays")
EVID = os.path.join(VERIF, "evidence")
KNOWN = os.path.join(VERIF, "known-findings.txt")

import itertools
_SEQ = itertools.count(1)
JAVA_TRACE_OPTS = "-Xmx4g -Xss1g -Dtlc2.tool.queue.IStateQueue=StateDeque"


class ToolError(Exception):
    pass


def log(*a):
    print(*a, flush=True)


def ensure_dirs():
    for d in (WORK, TRACES, REPLAYS, EVID):
        os.makedirs(d, exist_ok=True)


# ------------------------------------------------------------------------------------------------
# building the harness (always from /repo's current working tree: path dependency, incremental)

_built = {}


def build(backend="sse2", release=False):
    key = (backend, release)
    if key in _built:
        return _built[key]
    env = dict(os.environ)
    env["CARGO_NET_OFFLINE"] = "true"
    tdir = "target" if backend == "sse2" else "target-generic"
    if backend == "generic":
        env["RUSTC_WRAPPER"] = os.path.join(HARNESS, "rustc-wrap-generic.sh")
    env["CARGO_TARGET_DIR"] = os.path.join(HARNESS, tdir)
    cmd = ["cargo", "build", "--offline", "--quiet"]
    if release:
        cmd.append("--release")
    t0 = time.time()
    p = subprocess.run(cmd, cwd=HARNESS, env=env, stdout=subprocess.PIPE, stderr=subprocess.STDOUT, text=True)
    if p.returncode != 0:
        raise ToolError("cargo build failed (%s):\n%s" % (backend, p.stdout[-4000:]))
    exe = os.path.join(HARNESS, tdir, "release" if release else "debug", "hbv")
    _built[key] = exe
    log("  built harness [%s%s] in %.1fs" % (backend, ",release" if release else "", time.time() - t0))
    return exe


# ------------------------------------------------------------------------------------------------
# TLC

def tlc_model(cfg, module, workers=8, timeout=600, extra=None, tag=None, simulate=None, env_extra=None, java_opts=None):
    """Runs an exhaustive (or -simulate) TLC configuration. Returns dict with states, distinct,
    ok, violated invariant (if any), output tail."""
    ensure_dirs()
    tag = tag or os.path.basename(cfg).replace(".cfg", "")
    meta = os.path.join(WORK, "mc_%s_%d" % (tag, os.getpid()))
    cmd = ["timeout", str(timeout), "tlc", "-workers", str(workers), "-metadir", meta, "-cleanup", "-noGenerateSpecTE",
           "-config", cfg]
    if simulate:
        cmd += ["-simulate", simulate]
    if extra:
        cmd += extra
    cmd.append(module)
    env = dict(os.environ)
    if java_opts:
        env["JAVA_TOOL_OPTIONS"] = java_opts
    if env_extra:
        env.update(env_extra)
    t0 = time.time()
    p = subprocess.run(cmd, cwd=SPEC, env=env, stdout=subprocess.PIPE, stderr=subprocess.STDOUT, text=True)
    shutil.rmtree(meta, ignore_errors=True)
    out = p.stdout
    res = {"cfg": os.path.basename(cfg), "module": module, "wall_s": round(time.time() - t0, 1), "rc": p.returncode,
           "states": 0, "distinct": 0, "ok": False, "violation": None, "out": out}
    m = re.findall(r"(\d[\d,]*) states generated, (\d[\d,]*) distinct states found", out)
    if m:
        res["states"] = int(m[-1][0].replace(",", ""))
        res["distinct"] = int(m[-1][1].replace(",", ""))
    m = re.search(r"The depth of the complete state graph search is (\d+)", out)
    if m:
        res["depth"] = int(m.group(1))
    if p.returncode == 124:
        res["timeout"] = True
        return res
    v = re.search(r"Error: Invariant (\S+) is violated", out)
    if v:
        res["violation"] = v.group(1)
        return res
    v = re.search(r"Error: Action property (\S+)", out) or re.search(r"Error: Temporal properties were violated", out)
    if v:
        res["violation"] = v.group(0)
        return res
    if "Model checking completed. No error has been found." in out or (simulate and "Error" not in out and p.returncode == 0):
        res["ok"] = True
        return res
    if simulate and p.returncode == 0:
        res["ok"] = True
        return res
    res["toolerror"] = True
    return res


def tlc_trace(trace_path, W, prop, timeout=900, module="HbTrace.tla", cfg="HbTrace.cfg"):
    """Validates one NDJSON trace. Returns the HBVRESULT dict (plus 'toolerror' on failure).  A run that ends without any
    verdict (the JVM could not start or was killed on an overloaded machine) is repeated once; a verdict is never retried."""
    r = _tlc_trace_once(trace_path, W, prop, timeout, module, cfg)
    o = r.get("out") or ""
    transient = ("Error: " not in o) or ("out of memory" in o) or ("OutOfMemory" in o) or ("Cannot allocate memory" in o)
    if r.get("toolerror"):
        try:
            with open(os.path.join(WORK, "toolerror_%s_%d.log" % (os.path.basename(trace_path), int(time.time()))), "w") as f:
                f.write(r.get("full") or o)
        except OSError:
            pass
    r.pop("full", None)
    if r.get("toolerror") and r.get("rc") != 124 and transient:
        time.sleep(2)
        r = _tlc_trace_once(trace_path, W, prop, timeout, module, cfg)
        r.pop("full", None)
        r["retried"] = True
    return r


def _tlc_trace_once(trace_path, W, prop, timeout, module, cfg):
    ensure_dirs()
    tag = "tv_%d_%d" % (os.getpid(), next(_SEQ))      # unique per call: traces are validated from parallel threads
    meta = os.path.join(WORK, tag)
    cfgp = os.path.join(WORK, tag + ".cfg")
    with open(os.path.join(SPEC, cfg)) as f:
        text = f.read()
    text = re.sub(r"W = \d+", "W = %d" % W, text)
    with open(cfgp, "w") as f:
        f.write(text)
    env = dict(os.environ)
    env["TRACE"] = trace_path
    env["PROP"] = prop
    env["JAVA_TOOL_OPTIONS"] = JAVA_TRACE_OPTS
    cmd = ["timeout", str(timeout), "tlc", "-workers", "1", "-metadir", meta, "-cleanup", "-noGenerateSpecTE", "-config", cfgp, module]
    t0 = time.time()
    p = subprocess.run(cmd, cwd=SPEC, env=env, stdout=subprocess.PIPE, stderr=subprocess.STDOUT, text=True)
    shutil.rmtree(meta, ignore_errors=True)
    try:
        os.remove(cfgp)
    except OSError:
        pass
    out = p.stdout
    m = re.search(r'"HBVRESULT (\{.*\})"', out)
    if not m:
        return {"toolerror": True, "rc": p.returncode, "out": out[-3000:], "full": out[-200000:], "wall_s": round(time.time() - t0, 1)}
    js = m.group(1).encode().decode("unicode_escape")
    res = json.loads(js)
    res["wall_s"] = round(time.time() - t0, 1)
    res["rc"] = p.returncode
    return res


# ------------------------------------------------------------------------------------------------
# harness runs

def strip_begin(raw, out):
    """Removes the `begin` markers (crash localisation only) and returns (#events, last begin line)."""
    n = 0
    last_begin = None
    with open(raw) as f, open(out, "w") as g:
        for line in f:
            if line.startswith('{"op":"begin"'):
                last_begin = line.strip()
                continue
            if not line.endswith("\n"):
                break  # truncated line of a crashed process
            g.write(line)
            n += 1
    return n, last_begin


def run_harness(exe, args, raw_path, timeout=600, env_extra=None):
    """Runs the harness; returns (returncode, stderr tail). Negative returncode = killed by signal."""
    env = dict(os.environ)
    if env_extra:
        env.update(env_extra)
    cmd = [exe] + args[:1] + ["--out", raw_path] + args[1:]
    try:
        p = subprocess.run(cmd, env=env, stdout=subprocess.PIPE, stderr=subprocess.PIPE, text=True, timeout=timeout)
        return p.returncode, p.stderr[-2000:]
    except subprocess.TimeoutExpired:
        return 124, "harness timed out after %ds (an operation did not terminate)" % timeout


def sample_lines(path, k=2, maxlen=900):
    out = []
    try:
        with open(path) as f:
            lines = f.readlines()
        idxs = [1, len(lines) // 2, len(lines) - 2]
        for i in idxs[:k + 1]:
            if 0 <= i < len(lines):
                s = lines[i].strip()
                out.append(s if len(s) <= maxlen else s[:maxlen] + "...")
    except OSError:
        pass
    return out


# ------------------------------------------------------------------------------------------------
# known findings

def load_known():
    open_, fixed = [], []
    if os.path.exists(KNOWN):
        for line in open(KNOWN):
            line = line.strip()
            if not line or line.startswith("#"):
                continue
            m = re.match(r"(open|fixed):\s+property=(\S+)\s+(.*)", line)
            if not m:
                continue
            kind, prop, rest = m.groups()
            if kind == "open":
                sig = re.match(r"signature=(\S+)\s+(.*)", rest)
                if sig:
                    open_.append({"property": prop, "signature": sig.group(1), "text": sig.group(2)})
            else:
                fixed.append({"property": prop, "text": rest})
    return open_, fixed


# ------------------------------------------------------------------------------------------------
# the run context of one check

class Run:
    def __init__(self, prop, tier, seed):
        self.prop = prop
        self.tier = tier
        self.seed = seed
        self.t0 = time.time()
        self.violations = []      # list of (replay path, message)
        self.known_hits = []
        self.models = []
        self.traces = []
        self.samples = []
        self.notes = []
        self.states = 0
        self.transitions = 0
        self.distinct = 0
        self.steps = 0
        self.drift = 0
        self.foreign = 0
        self.evaluations = 0
        self.assumptions = []
        self.tool_errors = []
        self.extra = {}
        self.open_known, self.fixed_known = load_known()
        ensure_dirs()

    # ---- reporting
    def violation(self, message, replay_obj, signature=None):
        """Registers a violation unless it is a listed known finding (matched by signature)."""
        if signature:
            for k in self.open_known:
                if k["property"] == self.prop and k["signature"] == signature:
                    self.known_hits.append((signature, k["text"]))
                    log("KNOWN-FINDING: property=%s %s (%s)" % (self.prop, k["text"], signature))
                    return
        n = len(self.violations) + 1
        path = os.path.join(REPLAYS, "%s-%s-%d-%d.json" % (self.prop, self.tier, self.seed, n))
        replay_obj = dict(replay_obj)
        replay_obj["property"] = self.prop
        replay_obj["message"] = message
        replay_obj["seed"] = self.seed
        with open(path, "w") as f:
            json.dump(replay_obj, f, indent=1)
        self.violations.append((path, message))
        log("VIOLATION property=%s replay=%s" % (self.prop, path))
        log("  " + message)

    def tool_error(self, msg):
        self.tool_errors.append(msg)
        log("TOOL-ERROR: " + msg[:3000])

    # ---- exhaustive / simulated models
    def model(self, cfg, module, workers=8, timeout=600, expect_ok=True, **kw):
        cfgp = os.path.join(SPEC, cfg)
        r = tlc_model(cfgp, module, workers=workers, timeout=timeout, **kw)
        self.models.append({k: r[k] for k in r if k != "out"})
        self.states += r["distinct"]
        self.distinct += r["distinct"]
        self.transitions += r["states"]
        log("  model %-28s %9d distinct %10d generated  %6.1fs  %s" % (
            cfg, r["distinct"], r["states"], r["wall_s"],
            "ok" if r["ok"] else ("VIOLATED " + str(r["violation"]) if r["violation"] else ("timeout" if r.get("timeout") else "tool error"))))
        if r["violation"]:
            # a violated invariant of the specification itself: the design (as modelled from the code) admits a bad state
            tail = r["out"][-6000:]
            self.violation("model %s violates %s" % (cfg, r["violation"]), {"kind": "model", "cfg": cfg, "module": module, "tlc_output_tail": tail},
                           signature="model:%s:%s" % (cfg, r["violation"]))
        elif r.get("timeout"):
            self.notes.append("model %s did not finish within %ds (%d distinct states explored, no violation)" % (cfg, timeout, r["distinct"]))
        elif not r["ok"]:
            self.tool_error("TLC failed on %s:\n%s" % (cfg, r["out"][-3000:]))
        return r

    # ---- implementation traces
    def trace(self, name, backend, args, timeout=600, W=None, env_extra=None, release=False, module="HbTrace.tla", cfg="HbTrace.cfg",
              tlc_timeout=900):
        """Runs the harness with `args`, validates the recorded trace with TLC."""
        exe = build(backend, release)
        W = W or (16 if backend == "sse2" else 8)
        raw = os.path.join(TRACES, "%s_%s_%s.raw" % (self.prop, name, backend))
        nd = os.path.join(TRACES, "%s_%s_%s.ndjson" % (self.prop, name, backend))
        t0 = time.time()
        rc, err = run_harness(exe, args, raw, timeout=timeout, env_extra=env_extra)
        nev, last_begin = strip_begin(raw, nd)
        hw = time.time() - t0
        rec = {"name": name, "backend": backend, "args": args, "events": nev, "harness_s": round(hw, 1)}
        if rc != 0:
            # a crash / abort / hang inside a safe API call is a violation (C02 and the property under test)
            what = "harness terminated abnormally (rc=%s) during %s; stderr: %s" % (rc, last_begin, err.strip()[-600:])
            self.violation(what, {"kind": "crash", "backend": backend, "args": args, "last_begin": last_begin, "rc": rc, "stderr": err},
                           signature="crash:%s" % name)
            rec["crashed"] = True
            self.traces.append(rec)
            return rec
        res = tlc_trace(nd, W, self.prop, timeout=tlc_timeout, module=module, cfg=cfg)
        rec.update({k: res.get(k) for k in ("steps", "lines", "drift", "foreign", "rejected", "line", "reasons", "wall_s", "firstdrift", "firstforeign")})
        self.traces.append(rec)
        if res.get("toolerror"):
            self.tool_error("TLC trace validation failed for %s: %s" % (name, res.get("out")))
            return rec
        self.steps += res["steps"]
        self.drift += res["drift"]
        self.foreign += res["foreign"]
        self.evaluations += res["steps"]
        log("  trace %-34s [%s] %6d steps drift %d foreign %d  harness %.1fs tlc %.1fs %s" % (
            name, backend, res["steps"], res["drift"], res["foreign"], hw, res["wall_s"], "REJECTED" if res["rejected"] else "accepted"))
        if res["drift"]:
            self.notes.append("DRIFT %d steps in %s (first %s): placement/growth policy differs from the concrete specification; not a violation" % (
                res["drift"], name, res.get("firstdrift")))
            log("  DRIFT %d steps (first: %s)" % (res["drift"], res.get("firstdrift")))
        if res["foreign"]:
            self.notes.append("%d step(s) of %s failed checks that belong to other properties (first: %s)" % (res["foreign"], name, res.get("firstforeign")))
            log("  NOTE %d foreign failure(s) (first: %s)" % (res["foreign"], res.get("firstforeign")))
        if res["rejected"]:
            ev = None
            try:
                with open(nd) as f:
                    lines = f.readlines()
                ev = lines[res["line"] - 1].strip() if 0 < res["line"] <= len(lines) else None
            except OSError:
                pass
            op = ""
            try:
                op = json.loads(ev)["op"] if ev else ""
            except Exception:
                pass
            msg = "trace %s [%s] rejected at line %d (op %s): %s" % (name, backend, res["line"], op, "; ".join(res["reasons"]))
            keep = os.path.join(REPLAYS, "%s-%s-%d-%s.ndjson" % (self.prop, self.tier, self.seed, name))
            try:
                with open(nd) as f, open(keep, "w") as g:
                    for i, line in enumerate(f):
                        if i < res["line"]:
                            g.write(line)
            except OSError:
                pass
            self.violation(msg, {"kind": "trace", "backend": backend, "args": args, "line": res["line"], "reasons": res["reasons"],
                                 "event": ev[:3000] if ev else None, "trace_prefix": keep},
                           signature="trace:%s:%s" % (op, "|".join(sorted(res["reasons"]))[:80]))
        else:
            if len(self.samples) < 4:
                self.samples.append({"trace": name, "backend": backend, "events": sample_lines(nd, 1)})
        return rec

    def traces_parallel(self, jobs, workers=5):
        """jobs: list of dicts of keyword arguments for trace(); harness builds are done first, sequentially."""
        from concurrent.futures import ThreadPoolExecutor
        for j in jobs:
            build(j.get("backend", "sse2"), j.get("release", False))
        with ThreadPoolExecutor(max_workers=workers) as ex:
            futs = [ex.submit(lambda kw=j: self.trace(**kw)) for j in jobs]
            return [f.result() for f in futs]

    # ---- finish
    def finish(self, level="model_checking", rule=None, extra_cov=None):
        wall = time.time() - self.t0
        cov = {
            # TLC states: distinct states of the exhaustive models + one state per validated trace step
            "states": self.states + self.steps,
            "transitions": self.transitions + self.steps,
            "model_states_distinct": self.states,
            "model_states_generated": self.transitions,
            "traces_validated_against_impl": sum(1 for t in self.traces if not t.get("crashed") and t.get("rejected") == 0),
            "samples": self.samples if self.samples else [{"note": "no sample recorded"}],
            "model_runs": self.models,
            "trace_runs": self.traces,
            "implementation_steps_validated": self.steps,
            "strict_drift_steps": self.drift,
            "strict_conformance": self.drift == 0,
            "foreign_failures": self.foreign,
            "notes": self.notes,
            "exhaustive": all(m.get("ok") for m in self.models) if self.models else False,
        }
        if rule:
            cov["rule"] = rule
        if extra_cov:
            cov.update(extra_cov)
        cov.update(self.extra)
        ev = {
            "property_id": self.prop,
            "tier": self.tier,
            "seed": self.seed,
            "level": level,
            "coverage": cov,
            "assumptions": self.assumptions,
            "wall_s": round(wall, 1),
            "violations": len(self.violations),
            "known_findings_hit": [k[0] for k in self.known_hits],
        }
        with open(os.path.join(EVID, self.prop + ".json"), "w") as f:
            json.dump(ev, f, indent=1)
        if self.violations:
            log("RESULT %s %s: %d violation(s) in %.1fs" % (self.prop, self.tier, len(self.violations), wall))
            return 1
        if self.tool_errors:
            log("RESULT %s %s: tool error(s) in %.1fs" % (self.prop, self.tier, wall))
            return 2
        log("RESULT %s %s: held on everything explored (%d model states, %d implementation steps, drift %d) in %.1fs" % (
            self.prop, self.tier, self.states, self.steps, self.drift, wall))
        return 0
