"""Per-property check plans: which model configurations are explored exhaustively, which
behaviours are generated and replayed, which drivers are run and validated (DESIGN section 6)."""
import json
import os

import vlib

Q = "quick"

COMMON_ASSUMPTIONS = [
    "TLC 1.8 and the TLA+ standard/Community modules are correct; recorded traces are complete (hooks under cfg(hashbrown_verif) are read-only)",
    "exhaustive results hold for the stated constants (group width W, key universe, plan set); beyond them evidence is by validated implementation traces",
    "only the x86_64 SSE2 (W=16) and the 64-bit portable (W=8) back-ends are executed",
]


def drive(run, name, scens, backend="sse2", **kw):
    return run.trace(name, backend, ["drive", "--seed", str(run.seed)] + scens, **kw)


def job(run, name, scens, backend="sse2", **kw):
    d = {"name": name, "backend": backend, "args": ["drive", "--seed", str(run.seed)] + scens}
    d.update(kw)
    return d


# ------------------------------------------------------------------------------------------------
def c01(run):
    quick = run.tier == Q
    run.assumptions += COMMON_ASSUMPTIONS
    run.model("MC_map_w2q.cfg", "MC_map.tla", workers=8, timeout=300)
    if not quick:
        run.model("MC_map_w2t.cfg", "MC_map.tla", workers=12, timeout=1500)
        run.model("MC_map_w4t.cfg", "MC_map.tla", workers=12, timeout=1500)
    n = 1 if quick else 4
    drive(run, "basic", ["map:kv16:collide:24:%d:basic" % (900 * n), "map:kv24:max:20:%d:basic" % (400 * n),
                         "map:k4v4:fewpos:30:%d:basic" % (500 * n), "map:kv16:onegroup:12:%d:basic" % (400 * n)])
    drive(run, "entry", ["map:kv16:zero:14:%d:entry" % (600 * n), "map:kv16:mixed:40:%d:wide" % (700 * n)])
    if not quick:
        drive(run, "wide2", ["map:kv200:posfix:30:3000:wide", "map:kva64:tagfix:30:3000:wide", "map:k1v4:lowbit:12:2000:wide",
                             "map:kv16:seq:48:4000:basic"])
        drive(run, "basic", ["map:kv16:collide:24:3000:basic", "map:kv24:max:20:1500:entry", "map:k4v4:fewpos:30:2000:wide",
                             "map:kv16:onegroup:12:1500:wide", "map:kv16:zero:10:1500:wide"], backend="generic")
    return run.finish(rule="exhaustive: all operation sequences over the key universe under every hash plan of the plan set; "
                           "traces: random walks over the HashMap API under adversarial plan families, every step validated")


CHECKS = {
    "C01": c01,
}


def replay(prop, path, seed):
    """Re-runs the scenario of a replay file and validates it again."""
    with open(path) as f:
        obj = json.load(f)
    run = vlib.Run(prop, "quick", obj.get("seed", seed))
    kind = obj.get("kind")
    if kind == "model":
        run.model(obj["cfg"], obj["module"])
    elif kind in ("trace", "crash"):
        run.trace("replay", obj["backend"], obj["args"])
    else:
        print("unknown replay kind")
        return 2
    return run.finish()
