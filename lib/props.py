"""Per-property check plans: which model configurations are explored exhaustively, which
behaviours are generated and replayed, which drivers are run and validated (DESIGN section 6)."""
import json
import os

import vlib
import layout

Q = "quick"

COMMON_ASSUMPTIONS = [
    "TLC 1.8 and the TLA+ standard/Community modules are correct; recorded traces are complete (hooks under cfg(hashbrown_verif) are read-only)",
    "exhaustive results hold for the stated constants (group width W, key universe, plan set); beyond them evidence is by validated implementation traces",
    "only the x86_64 SSE2 (W=16) and the 64-bit portable (W=8) back-ends are executed",
]


def drive(run, name, scens, backend="sse2", **kw):
    return run.trace(name, backend, ["drive", "--seed", str(run.seed)] + scens, **kw)


def job(run, name, scens, backend="sse2", **kw):
    d = {"name": name, "backend": backend, "args": ["drive", "--seed", str(run.seed)] + scens}
    d.update(kw)
    return d


# ------------------------------------------------------------------------------------------------
def c01(run):
    quick = run.tier == Q
    run.assumptions += COMMON_ASSUMPTIONS
    run.model("MC_map_w2q.cfg", "MC_map.tla", workers=8, timeout=300)
    # start states at full load / tombstone saturation: the in-place rehash runs with live elements (and panicking hashers)
    run.model("MC_map_w2inplaceq.cfg", "MC_map.tla", workers=8, timeout=600)
    run.model("MC_map_w2inplacep.cfg", "MC_map.tla", workers=8, timeout=600)     # ... with an unaligned home position (is_in_same_group)
    # tables smaller than a group (4 buckets at W = 8): mirrored tail, fix_insert_slot
    run.model("MC_map_w8small.cfg", "MC_map.tla", workers=8, timeout=600)
    if not quick:
        run.model("MC_map_w2inplace.cfg", "MC_map.tla", workers=12, timeout=1500)
        run.model("MC_map_w2t.cfg", "MC_map.tla", workers=12, timeout=1500)
        run.model("MC_map_w4t.cfg", "MC_map.tla", workers=12, timeout=1500)
    n = 1 if quick else 4
    drive(run, "basic", ["map:kv16:collide:24:%d:basic" % (900 * n), "map:kv24:max:20:%d:basic" % (400 * n),
                         "map:k4v4:fewpos:30:%d:basic" % (500 * n), "map:kv16:onegroup:12:%d:basic" % (400 * n)])
    drive(run, "entry", ["map:kv16:zero:14:%d:entry" % (600 * n), "map:kv16:mixed:40:%d:wide" % (700 * n)])
    drive(run, "wrap", ["map:kv16:wrap:40:%d:basic" % (800 * n), "map:kv16:spread:26:%d:entry" % (600 * n), "map:kv16:wrap:26:%d:iter" % (500 * n)])
    run.trace(**corpus_job(run, 16))
    for j in entry_goal_jobs(run, ("map",), 16):
        run.trace(**j)
    if not quick:
        run.trace(**corpus_job(run, 8))
        run.traces_parallel(fresh_jobs(run) + goal_jobs(run, 16) + goal_jobs(run, 8) + entry_goal_jobs(run, ("map",), 8), workers=6)
    if not quick:
        drive(run, "wide2", ["map:kv200:posfix:30:3000:wide", "map:kva64:tagfix:30:3000:wide", "map:k1v4:lowbit:12:2000:wide",
                             "map:kv16:seq:48:4000:basic"])
        drive(run, "basic", ["map:kv16:collide:24:3000:basic", "map:kv24:max:20:1500:entry", "map:k4v4:fewpos:30:2000:wide",
                             "map:kv16:onegroup:12:1500:wide", "map:kv16:zero:10:1500:wide"], backend="generic")
    return run.finish(rule="exhaustive: all operation sequences over the key universe under every hash plan of the plan set; "
                           "traces: random walks over the HashMap API under adversarial plan families, every step validated")


def corpus_job(run, W=16):
    """Replay of the TLC-generated behaviour corpus (spec -> impl), see bin/gen-corpus."""
    return {"name": "corpus_w%d" % W, "backend": "sse2" if W == 16 else "generic",
            "args": ["replay", "--seed", str(run.seed), os.path.join(vlib.VERIF, "corpus", "map_w%d.ndjson" % W)]}


_fresh = {}


def fresh_corpus(run):
    """Thorough tier: a larger corpus generated from the specification during the run (seeded by VERIF_SEED), in addition
    to the committed one."""
    import subprocess
    key = run.prop
    if key in _fresh:
        return _fresh[key]
    out = os.path.join(vlib.WORK, "corpus_%s_%d" % (run.prop, os.getpid()))
    p = subprocess.run([os.path.join(vlib.VERIF, "bin", "gen-corpus"), "--num", "240", "--depth", "90", "--out", out, "--seed", str(run.seed)],
                       stdout=subprocess.PIPE, stderr=subprocess.STDOUT, text=True)
    vlib.log("  fresh corpus: " + " | ".join(l for l in p.stdout.splitlines() if l.startswith("W=")))
    if p.returncode != 0:
        run.tool_error("gen-corpus failed: " + p.stdout[-1500:])
        out = None
    _fresh[key] = out
    return out


def fresh_jobs(run, fault=False):
    out = fresh_corpus(run)
    if not out:
        return []
    jobs = []
    for W, be in ((16, "sse2"), (8, "generic")):
        jobs.append({"name": "fresh_w%d" % W, "backend": be, "args": ["replay", "--seed", str(run.seed), os.path.join(out, "map_w%d.ndjson" % W)]})
        if fault:
            jobs.append({"name": "freshfault_w%d" % W, "backend": be, "args": ["replay", "--seed", str(run.seed), os.path.join(out, "map_w%d_fault.ndjson" % W)]})
    return jobs


def fault_corpus_job(run, W=16):
    return {"name": "faultcorpus_w%d" % W, "backend": "sse2" if W == 16 else "generic",
            "args": ["replay", "--seed", str(run.seed), os.path.join(vlib.VERIF, "corpus", "map_w%d_fault.ndjson" % W)]}


def goal_jobs(run, W=16, plans=(1, 2, 3, 6, 8, 9)):
    """Scripted goal scenarios (template states x every operation, see bin/gen-corpus)."""
    return [{"name": "goals_w%d_p%d" % (W, p), "backend": "sse2" if W == 16 else "generic",
             "args": ["replay", "--seed", str(run.seed), os.path.join(vlib.VERIF, "corpus", "map_w%d_goals_p%d.ndjson" % (W, p))]} for p in plans]


def kind_goal_job(run, kind, W=16):
    return {"name": "%sgoals_w%d" % (kind, W), "backend": "sse2" if W == 16 else "generic",
            "args": ["replay", "--seed", str(run.seed), os.path.join(vlib.VERIF, "corpus", "%s_w%d_goals.ndjson" % (kind, W))]}


def entry_goal_jobs(run, kinds, W=16):
    """Scenarios for the reservation inside RawTable::insert (growth_left = 0 and an EMPTY insert slot), see bin/gen-corpus."""
    return [{"name": "%sentrygoals_w%d" % (k, W), "backend": "sse2" if W == 16 else "generic",
             "args": ["replay", "--seed", str(run.seed), os.path.join(vlib.VERIF, "corpus", "%s_w%d_entrygoals.ndjson" % (k, W))]} for k in kinds]


def fault_goal_jobs(run, kinds, W=16):
    """Callback panics (Drop, Clone, Eq, BuildHasher::clone) at fixed invocations inside every operation that runs them."""
    return [{"name": "%sfaultgoals_w%d" % (k, W), "backend": "sse2" if W == 16 else "generic",
             "args": ["replay", "--seed", str(run.seed), os.path.join(vlib.VERIF, "corpus", "%s_w%d_faultgoals.ndjson" % (k, W))]} for k in kinds]


def par_goal_jobs(run, kinds, W=16):
    """rayon operations at fixed points (complete / short-circuiting / panicking consumers, par_extend with repeated keys)."""
    return [{"name": "%spargoals_w%d" % (k, W), "backend": "sse2" if W == 16 else "generic",
             "args": ["replay", "--seed", str(run.seed), os.path.join(vlib.VERIF, "corpus", "%s_w%d_pargoals.ndjson" % (k, W))]} for k in kinds]


def generic_check(run, models_q, models_t, jobs_q, jobs_t, rule, corpus=False, fault_corpus=False, goals=False, sgoals=False, tgoals=False, egoals=(), count=False, fgoals=(), pgoals=()):
    quick = run.tier == Q
    run.assumptions += COMMON_ASSUMPTIONS
    for m in (models_q if quick else models_q + models_t):
        run.model(*m[:2], **(m[2] if len(m) > 2 else {}))
    if count:
        layout.count_checks(run)
    jobs = jobs_q if quick else jobs_q + jobs_t
    jl = []
    for j in jobs:
        if isinstance(j, dict):
            d = dict(j)
            d["args"] = [os.path.join(vlib.VERIF, a) if a.startswith("corpus/") else a.replace("@SEED@", str(run.seed)) for a in d["args"]]
            jl.append(d)
        else:
            jl.append(job(run, *j[:2], **(j[2] if len(j) > 2 else {})))
    if not quick:
        # thorough: the random drivers of the quick tier again under three more seeds derived from VERIF_SEED
        for j in jobs_q:
            if isinstance(j, dict):
                continue
            for extra in (1, 2, 3):
                d = job(run, "%s_s%d" % (j[0], extra), j[1], **(j[2] if len(j) > 2 else {}))
                d["args"] = ["drive", "--seed", str(run.seed * 1000003 + extra)] + list(j[1])
                jl.append(d)
    if corpus:
        jl.append(corpus_job(run, 16))
        if not quick:
            jl.append(corpus_job(run, 8))
    if goals:
        jl += goal_jobs(run, 16, (1, 3, 8, 9) if quick else (1, 2, 3, 6, 8, 9))
        if not quick:
            jl += goal_jobs(run, 8)
    if pgoals:
        jl += par_goal_jobs(run, pgoals, 16)
        if not quick:
            jl += par_goal_jobs(run, pgoals, 8)
    if fgoals:
        jl += fault_goal_jobs(run, fgoals, 16)
        if not quick:
            jl += fault_goal_jobs(run, fgoals, 8)
    if egoals:
        jl += entry_goal_jobs(run, egoals, 16)
        if not quick:
            jl += entry_goal_jobs(run, egoals, 8)
    for flag, kind in ((sgoals, "set"), (tgoals, "table")):
        if flag:
            jl.append(kind_goal_job(run, kind, 16))
            # the TLC-generated behaviours of that collection kind (Gen_map with Kind = set / table)
            jl.append({"name": "%scorpus_w16" % kind, "backend": "sse2",
                       "args": ["replay", "--seed", str(run.seed), os.path.join(vlib.VERIF, "corpus", "%s_w16.ndjson" % kind)]})
            if not quick:
                jl.append(kind_goal_job(run, kind, 8))
                jl.append({"name": "%scorpus_w8" % kind, "backend": "generic",
                           "args": ["replay", "--seed", str(run.seed), os.path.join(vlib.VERIF, "corpus", "%s_w8.ndjson" % kind)]})
    if fault_corpus:
        jl.append(fault_corpus_job(run, 16))
        if not quick:
            jl.append(fault_corpus_job(run, 8))
    if not quick and (corpus or fault_corpus):
        jl += fresh_jobs(run, fault=fault_corpus)
    run.traces_parallel(jl, workers=6)
    try:
        with open(os.path.join(vlib.VERIF, "corpus", "SUMMARY.json")) as f:
            run.extra["generated_behaviour_corpus"] = json.load(f)
    except OSError:
        pass
    return run.finish(rule=rule)


G = {"backend": "generic"}


def c02(run):
    F = "fault=12"
    return generic_check(run, [("MC_map_w2q.cfg", "MC_map.tla", {"timeout": 300})], [("MC_map_w2fault.cfg", "MC_map.tla", {"timeout": 600})],
        [("lay_map", ["map:kv16:collide:24:500:wide:" + F, "map:kv200:zero:14:300:wide", "map:kva64:fewpos:20:300:wide:" + F,
                      "map:kva32:max:16:250:iter", "map:k1v4:onegroup:12:300:wide", "map:k3v4:collide:14:250:wide", "map:k4v4:zero:14:300:fault:fault=25"]),
         ("lay_set", ["set:k1:collide:30:400:set", "set:k2:zero:14:250:set", "set:k3:fewpos:20:250:set", "set:k5:max:14:200:set",
                      "set:k6:collide:20:250:setalg", "set:k7:onegroup:12:200:set", "set:k8t:collide:20:400:setalg:" + F]),
         ("lay_table", ["table:te24:collide:20:400:table:" + F, "table:te208:zero:12:250:table", "table:tea64:fewpos:16:250:table", "table:t1:collide:30:300:table"]),
         ("zst", ["table:t0:zero:1:1500:tablezst", "table:t0:max:1:600:tablezst", "table:t0a:zero:1:600:tablezst"], {"module": "HbZstTrace.tla", "cfg": "HbZstTrace.cfg"}),
         ("lay_many", ["map:kv16:collide:16:800:many", "map:k4v4:zero:10:400:many", "map:kv16:zero:10:400:many:chaos=1"]),
         ("lay_dropfault", ["map:kv16:collide:20:500:iter:fault=30,fclass=drop", "table:te24:zero:14:300:table:fault=25,fclass=drop", "set:k8t:collide:16:300:set:fault=25,fclass=drop"])],
        [("lay2", ["map:kv24:collide:24:3000:wide:" + F, "map:k5v4:zero:14:2000:wide", "set:k8:mixed:40:2000:set", "table:te32:lowbit:14:2000:table:" + F]),
         ("layg", ["map:kv16:collide:24:2000:wide:" + F, "map:kva64:zero:14:1000:iter", "set:k3:collide:20:1000:set", "table:te24:zero:12:1500:table"], G),
         ("zstg", ["table:t0:zero:1:3000:tablezst"], {"backend": "generic", "module": "HbZstTrace.tla", "cfg": "HbZstTrace.cfg"}),
         ("zst2", ["table:t0:zero:1:6000:tablezst"], {"module": "HbZstTrace.tla", "cfg": "HbZstTrace.cfg"})],
        "layout matrix (element sizes 1..208, alignments 1..64, with / without drop glue) x collection kinds x hash plans incl. all-colliding, with leaked "
        "drains and injected callback panics; the structural invariant (exactly the preconditions of the unsafe blocks) is evaluated on every observed state; "
        "checking allocator (red zones, layout match), element registry and debug assertions observe the implementation side", corpus=True, fault_corpus=True, fgoals=("map", "set", "table"))


def c04(run):
    return generic_check(run, [("MC_map_w2fault.cfg", "MC_map.tla", {"timeout": 400}), ("MC_map_w2inplaceq.cfg", "MC_map.tla", {"timeout": 600}), ("MC_map_w2inplacep.cfg", "MC_map.tla", {"timeout": 600}),
                               ("MC_table_w2fault.cfg", "MC_table.tla", {"timeout": 300, "workers": 6}), ("MC_table_w2inplace.cfg", "MC_table.tla", {"timeout": 400}),
                               ("MC_set_w2fault.cfg", "MC_set.tla", {"timeout": 400, "workers": 6})],
                         [("MC_table_w2faultt.cfg", "MC_table.tla", {"timeout": 1500, "workers": 12}), ("MC_map_w2inplace.cfg", "MC_map.tla", {"timeout": 1500, "workers": 12}),
                          ("MC_set_w2inplace.cfg", "MC_set.tla", {"timeout": 1500, "workers": 12})],
        [("fault", ["map:kv16:collide:20:1300:fault:fault=30,plan2=fewpos", "map:k4v4:zero:14:700:fault:fault=30,plan2=collide"]),
         ("fault2", ["set:k8t:collide:20:600:setalg:fault=25,plan2=mixed", "table:te24:zero:14:600:table:fault=25", "map:kv24:onegroup:12:500:fault:fault=30"]),
         ("faultbh", ["map:kv16:collide:20:800:two:fault=60,fclass=bh_clone,plan2=fewpos", "set:k8t:zero:14:500:setalg:fault=50,fclass=bh_clone,plan2=collide"])],
        [("fault3", ["map:kv16:collide:20:5000:fault:fault=30,plan2=fewpos", "map:k8v4:max:20:3000:fault:fault=35", "map:kv200:fewpos:24:2000:fault:fault=30"]),
         ("fault4", ["set:k8t:zero:14:3000:set:fault=25", "table:te208:collide:20:3000:table:fault=25", "map:kv16:collide:20:2000:two:fault=40,fclass=bh_clone,plan2=fewpos"]),
         ("faultg", ["map:kv16:collide:20:3000:fault:fault=30,plan2=fewpos", "map:k4v4:zero:14:2000:fault:fault=30"], G)],
        "model: every reachable small-scope state x operation x k-th hasher invocation panics (scope guards as written in the code), for HashMap, "
        "HashTable (re-hash closure) and HashSet (incl. the assigning operators); "
        "code: random fault injection (Hash, Eq, Clone, Drop, BuildHasher::clone) at the k-th invocation and generated behaviours whose growing / "
        "in-place-rehashing call panics at the k-th hasher invocation; post-unwind state validated", fault_corpus=True, egoals=("map", "set", "table"), fgoals=("map", "set", "table"))


def c05(run):
    return generic_check(run, [("MC_chaos_w2.cfg", "MC_chaos.tla", {"timeout": 300})], [("MC_chaos_w2t.cfg", "MC_chaos.tla", {"timeout": 1500, "workers": 12})],
        [("chaos", ["map:kv16:zero:16:1200:wide:chaos=1", "map:kv16:collide:20:600:wide:chaoseq=1", "map:k4v4:zero:14:500:basic:chaos=1,chaoseq=1"]),
         ("chaos2", ["map:kv24:fewpos:24:900:iter:chaos=1", "map:kv16:max:16:700:two:chaos=1", "map:kv16:zero:14:500:entry:chaoseq=1"]),
         ("chaosset", ["set:k8t:zero:16:800:set:chaos=1", "set:k8t:collide:16:600:setalg:chaoseq=1", "set:k8t:zero:14:500:setalg:chaos=1,chaoseq=1"]),
         ("chaostable", ["table:te24:zero:16:800:table:chaos=1", "table:te24:collide:16:600:table:chaoseq=1", "table:te24:zero:14:500:table:chaos=1,chaoseq=1"]),
         {"name": "chaosgoals_w16", "backend": "sse2", "args": ["replay", "--seed", "@SEED@", "corpus/map_w16_chaos.ndjson"]},
         # lawful runs in which only crashes, unexpected panics and the safety subset count for C05: zero-sized elements, and the
         # goal scenarios of the all-colliding plan (incl. clone_from between different sizes with equal capacity())
         ("zst", ["table:t0:zero:1:800:tablezst", "table:t0a:zero:1:400:tablezst"], {"module": "HbZstTrace.tla", "cfg": "HbZstTrace.cfg"}),
         {"name": "goals_w16_p1", "backend": "sse2", "args": ["replay", "--seed", "@SEED@", "corpus/map_w16_goals_p1.ndjson"]}],
        [("chaos3", ["map:kv16:zero:16:6000:wide:chaos=1", "map:kv200:collide:20:3000:wide:chaos=1,chaoseq=1", "map:kva64:zero:14:2000:cap:chaos=1"]),
         ("chaosg", ["map:kv16:zero:16:3000:wide:chaos=1", "map:kv16:collide:20:2000:entry:chaoseq=1"], G)],
        "model: from the unallocated table and from lawfully built tombstone-saturated tables, every operation under EVERY sequence of hasher answers "
        "(each invocation, incl. every re-hash during growth and in-place rehash, answers arbitrarily) keeps the safety subset of the invariant; "
        "code (maps, sets, tables): hash functions / equality predicates that give a fresh pseudo-random answer on every call (answers logged); the safety subset of the "
        "invariant, len = stored elements and exactly-once drops are validated after every call; the concrete operators fed with the logged "
        "answers reproduce the observed state (strict); per-process watchdog for termination")


def c03(run):
    return generic_check(run, [("MC_map_w2q.cfg", "MC_map.tla", {"timeout": 300})], [],
        [("drops", ["map:kv16:collide:24:1200:wide", "map:kv24:zero:12:600:iter", "map:kv16:fewpos:20:600:two"]),
         ("setdrops", ["set:k8t:collide:20:700:set", "set:k8t:fewpos:16:700:setalg"]),
         ("dropfault", ["map:kv16:collide:20:700:fault:fault=30,fclass=drop", "table:te24:zero:14:400:table:fault=25,fclass=drop",
                        "set:k8t:collide:16:400:set:fault=25,fclass=drop"]),
         ("clonefault", ["map:kv16:collide:16:500:two:fault=40,fclass=clone", "set:k8t:fewpos:14:400:setalg:fault=40,fclass=clone",
                         "table:te24:zero:12:300:table:fault=40,fclass=clone"]),
         # owning parallel iterators (short-circuiting and panicking consumers): every element dropped or handed out exactly once
         ("pardrops", ["map:kv16:collide:40:500:par", "set:k8t:collide:30:300:parset", "table:te24:zero:40:300:partable"])],
        [("drops2", ["map:kv200:collide:30:3000:wide", "map:kva64:max:20:2000:iter", "map:kv16:onegroup:14:3000:two"]),
         ("dropsg", ["map:kv16:collide:24:3000:wide", "set:k8t:zero:14:2000:setalg"], G)],
        "every element id and allocator block is followed through every call: drops observed in each call = drops of the abstract machine; block ledger = layouts of the live tables", corpus=True, fgoals=("map", "set", "table"), pgoals=("map", "set", "table"))


def c06(run):
    return generic_check(run, [("MC_table_w2q.cfg", "MC_table.tla", {"timeout": 300}), ("MC_table_w2inplace.cfg", "MC_table.tla", {"timeout": 400})],
                         [("MC_table_w2t.cfg", "MC_table.tla", {"timeout": 1500, "workers": 12})],
        [("table", ["table:te24:collide:20:1200:table", "table:te24:zero:12:700:table:plan2=mixed", "table:t1:fewpos:16:500:table"]),
         ("table2", ["table:te32:onegroup:14:800:table", "table:te24:mixed:30:600:table:plan2=collide"]),
         ("tablewrap", ["table:te24:wrap:30:900:table", "table:te24:spread:26:600:table:plan2=wrap"]),
         ("zst", ["table:t0:zero:1:1200:tablezst", "table:t0:max:1:500:tablezst", "table:t0a:zero:1:500:tablezst"], {"module": "HbZstTrace.tla", "cfg": "HbZstTrace.cfg"})],
        [("table3", ["table:te208:collide:24:4000:table", "table:tea64:max:16:3000:table", "table:te24:lowbit:14:3000:table"]),
         ("tableg", ["table:te24:collide:20:3000:table", "table:t1:zero:14:2000:table"], G)],
        "HashTable operations with caller-supplied hashes (two plans, duplicates of equal elements) validated against the multiset specification; iter_hash outputs, remove + re-insert through the returned VacantEntry, entry() at full load", tgoals=True, egoals=("table",))


def c07(run):
    return generic_check(run, [("MC_set_w2q.cfg", "MC_set.tla", {"timeout": 300})],
                         [("MC_set_w2t.cfg", "MC_set.tla", {"timeout": 1500, "workers": 12}), ("MC_set_w2inplace.cfg", "MC_set.tla", {"timeout": 1500, "workers": 12})],
        [("sets", ["set:k8t:collide:20:900:set", "set:k8t:fewpos:16:1200:setalg", "set:k4:zero:12:700:setalg:plan2=mixed"]),
         ("sets2", ["set:k8t:mixed:24:900:setalg:plan2=collide", "set:k1:onegroup:16:700:set"])],
        [("sets3", ["set:k8t:collide:20:4000:setalg:plan2=max", "set:k2:posfix:14:3000:setalg", "set:k8:tagfix:30:3000:set"]),
         ("setsg", ["set:k8t:collide:20:3000:setalg", "set:k8t:zero:12:2000:set"], G)],
        "pairs of sets built by random histories under independent hash plans; every algebra iterator, predicate, operator and assigning form compared with the mathematical result", sgoals=True, egoals=("set",))


def c08(run):
    return generic_check(run, [("MC_map_w2q.cfg", "MC_map.tla", {"timeout": 300})], [],
        [("cap", ["map:kv16:collide:24:1200:cap", "map:k4v4:zero:14:700:cap", "map:kv200:mixed:40:500:cap"]),
         ("capset", ["set:k1:collide:20:500:set", "set:k3:fewpos:16:300:set", "set:k6:zero:12:300:set", "map:k3v4:collide:14:300:cap", "map:k5v4:onegroup:12:300:cap"])],
        [("cap2", ["map:kv24:onegroup:14:3000:cap", "map:kva64:fewpos:30:3000:cap", "map:k1v4:max:12:3000:cap"]),
         ("capg", ["map:kv16:collide:24:3000:cap", "set:k1:zero:14:2000:set"], G)],
        "capacity()/len()/allocation_size() and allocator events recorded around every call and checked against the capacity contract on tombstoned states; for every table size (Apalache, HbCount): capacity() >= len() follows from the inductive bookkeeping invariant", corpus=True, goals=True, sgoals=True, tgoals=True, count=True)


ITER_MODELS = [("MC_iter_w4.cfg", "MC_iter.tla", {"timeout": 300, "workers": 6}), ("MC_iter_w16s.cfg", "MC_iter.tla", {"timeout": 300, "workers": 6}),
               ("MC_iter_w8s.cfg", "MC_iter.tla", {"timeout": 300, "workers": 4}), ("MC_iter_w2.cfg", "MC_iter.tla", {"timeout": 300, "workers": 6})]


def c09(run):
    return generic_check(run, ITER_MODELS, [],
        [("iter", ["map:kv16:collide:40:1200:iter", "map:k4v4:zero:24:600:iter", "map:kv24:mixed:60:500:iter"]),
         ("iterset", ["set:k8t:collide:40:700:set", "set:k1:zero:30:500:set"])],
        [("iter2", ["map:kv16:onegroup:12:3000:iter", "map:kv200:fewpos:60:3000:iter", "map:kv16:max:40:3000:iter"]),
         ("iterg", ["map:kv16:collide:40:3000:iter", "set:k8t:zero:30:2000:set"], G)],
        "every wrapper iterator walked with next/fold switch and clone points in every visited state; bucket index of each yield and every size_hint/len validated; the invariant clauses the count-terminated iterators rely on "
        "(items = #FULL, FULL <=> initialised slot, mirror bytes) on every observed state incl. the states left behind by a panicking hasher", goals=True, tgoals=True, fault_corpus=True)


def c10(run):
    return generic_check(run, [("MC_map_w2sel.cfg", "MC_map.tla", {"timeout": 300})] + ITER_MODELS[:2], [],
        [("sel", ["map:kv16:collide:40:1200:iter", "map:kv24:zero:24:700:iter"]),
         ("selset", ["set:k8t:collide:30:800:set", "table:te24:collide:24:600:table"]),
         ("selwrap", ["map:kv16:wrap:40:1200:iter", "table:te24:wrap:30:600:table", "set:k8t:wrap:30:600:set", "map:kv16:spread:40:600:iter"]),
         ("selzst", ["table:t0:zero:1:1200:tablezst"], {"module": "HbZstTrace.tla", "cfg": "HbZstTrace.cfg"}),
         ("selpar", ["map:kv16:collide:40:400:par", "table:te24:zero:40:300:partable"]),      # par_drain incl. panicking consumers
         ("selfault", ["map:kv16:collide:30:700:iter:fault=30,fclass=drop", "table:te24:zero:14:400:table:fault=25,fclass=drop",
                       "set:k8t:collide:20:400:set:fault=30,fclass=drop"])],
        [("sel2", ["map:kv16:onegroup:12:3000:iter", "map:kv200:fewpos:60:3000:iter"]),
         ("selg", ["map:kv16:collide:40:3000:iter", "set:k8t:zero:30:2000:set"], G)],
        "retain / extract_if / drain with random predicates (subsets) and early-drop points; predicate calls, yields and post-state validated", goals=True, sgoals=True, tgoals=True, fgoals=("map", "set", "table"), pgoals=("map", "set", "table"))


def c11(run):
    return generic_check(run, [("MC_two.cfg", "MC_two.tla", {"timeout": 300})],
                         [("MC_two_m.cfg", "MC_two.tla", {"timeout": 900, "workers": 12}), ("MC_two_t.cfg", "MC_two.tla", {"timeout": 1500, "workers": 12})],
        [("two", ["map:kv16:collide:24:1200:two:plan2=mixed", "map:kv24:zero:14:700:two:plan2=fewpos"]),
         ("twoset", ["set:k8t:collide:20:900:setalg:plan2=mixed"]),
         ("twofault", ["map:kv16:collide:24:700:two:fault=40,fclass=clone,plan2=mixed", "set:k8t:collide:20:400:setalg:fault=30,fclass=clone"])],
        [("two2", ["map:kv200:onegroup:14:3000:two", "map:kva64:fewpos:30:3000:two:plan2=collide"]),
         ("twog", ["map:kv16:collide:24:3000:two:plan2=mixed"], G)],
        "ordered pairs (target, source) of tables built by random histories under different plans; clone / clone_from / == validated incl. fresh identities of the clones and later independence", goals=True, fgoals=("map", "set"))


def c12(run):
    return generic_check(run, [], [],
        [("tryres", ["map:kv16:collide:24:900:tryres:fault=35", "map:k1v4:zero:14:500:tryres:fault=35", "map:kv200:mixed:30:400:tryres:fault=35"]),
         ("tryresset", ["set:k1:collide:20:400:tryres:fault=35", "set:k3:zero:12:300:tryres:fault=35", "set:k2:fewpos:14:300:tryres:fault=35"]),
         ("tryres2", ["map:k3v4:fewpos:20:500:tryres:fault=35", "map:kva64:onegroup:12:400:tryres:fault=35"])],
        [("tryres3", ["map:kv24:collide:40:4000:tryres:fault=35", "map:k5v4:max:20:3000:tryres:fault=35", "map:k8v4:seq:48:3000:tryres:fault=35"]),
         ("tryresg", ["map:kv16:collide:24:3000:tryres:fault=35", "map:k1v4:zero:14:2000:tryres:fault=35"], G)],
        "try_reserve on random states with amounts 0..small, around 7/8*2^k, and near isize::MAX / usize::MAX (classified symbolically), with the "
        "allocator refusing the j-th request: result class, refused layout, unchanged state and ledger validated", goals=True, sgoals=True)


def c17(run):
    quick = run.tier == Q
    run.assumptions += COMMON_ASSUMPTIONS + ["Apalache 0.58 / Z3 decide the 64-bit obligations; 32-bit usize is covered by the scaled TLC models only"]
    run.model("MC_layout_10.cfg", "MC_layout.tla", workers=4, timeout=300)
    run.model("MC_layout_9g.cfg", "MC_layout.tla", workers=4, timeout=300)
    if not quick:
        run.model("MC_layout_13.cfg", "MC_layout.tla", workers=8, timeout=900)
        run.model("MC_layout_12g.cfg", "MC_layout.tla", workers=8, timeout=900)
    ob, done = 0, 0
    for W in ((16,) if quick else (16, 8)):
        for r in layout.symbolic_checks(run, W, 24 if quick else 200):
            ob += 1
            vlib.log("  apalache %-10s W=%d %s in %.1fs" % (r["name"], W, "NoError" if r["ok"] else "FAILED", r["wall_s"]))
            if r["ok"]:
                done += 1
            elif r.get("counterexample"):
                run.violation("HbLayout violates C17 at 64 bits (%s)" % r["name"], {"kind": "apalache", "name": r["name"], "cex": r["counterexample"]},
                              signature="apalache:" + r["name"])
            else:
                run.tool_error("Apalache failed: %s" % r.get("out"))
    run.extra["symbolic_obligations_64bit"] = {"checked": ob, "discharged": done}
    # the arithmetic as the collections use it: on every observed table of the generated behaviours an EMPTY bucket exists, the
    # growth budget never exceeds the EMPTY bytes, and every live block has the alignment and room the layout promises
    run.traces_parallel([corpus_job(run, 16)] + entry_goal_jobs(run, ("map",), 16) + ([corpus_job(run, 8)] if not quick else []), workers=3)
    layout.validate_recorded(run, "sse2", 22 if quick else 32, 64 if quick else 4096, 80 if quick else 0, release=not quick)
    if not quick:
        layout.validate_recorded(run, "generic", 26, 512, 0, release=True)
    else:
        layout.validate_recorded(run, "generic", 16, 16, 30)
    return run.finish(rule="spec arithmetic: exhaustive at word sizes 9-13 bits (TLC), symbolic at 64 bits (Apalache); real functions: run-length "
                           "intervals of an exhaustive scan + boundary windows + layout samples validated against the same module")


DETERMINISTIC_R = {"insert", "get", "get_q", "contains", "get_mut", "get_kv_mut", "index", "remove", "remove_entry", "try_insert",
                   "e_or_insert", "e_or_insert_with", "e_or_insert_with_key", "e_and_modify_or_insert", "e_insert", "e_remove",
                   "e_remove_entry", "e_occ_insert", "e_occ_get_mut", "e_replace_some", "e_replace_none", "e_and_replace_some",
                   "e_and_replace_none", "e_vacant_drop", "e_insert_entry", "e_into_key", "rc_or_insert", "rc_insert", "rc_remove",
                   "rc_vacant_drop", "rc_insert_entry", "re_get", "eq", "replace", "take", "get_or_insert", "is_subset", "is_superset",
                   "is_disjoint", "t_insert_unique", "t_find", "t_find_mut", "t_remove", "try_reserve"}


def projection(path):
    """API-level projection of a trace: per event the call, its result, the panic class, the number of drops, and len +
    sorted contents of every table.  Object identities (>= 100000) are replaced by the class of the key they belong to,
    because the order in which a clone assigns fresh identities follows the bucket order, which legitimately differs
    between group widths; identity semantics are checked per trace against the abstract specification."""
    out = []
    owner = {}

    def learn(k, i):
        if i >= 100000 and i not in owner:
            owner[i] = "c%d" % k

    def proj(x):
        if isinstance(x, int) and x >= 100000:
            return owner.get(x, "?")
        return x

    with open(path) as f:
        for line in f:
            o = json.loads(line)
            if o["op"] in ("reset", "end"):
                owner.clear()
                continue
            learn(o["k"], o["id"])
            learn(o["k"], o["vid"])
            for y in o["y"]:
                if len(y) >= 4 and y[0] >= 0:
                    learn(y[0], y[1])
                    learn(y[0], y[3])
            tabs = []
            for s in o["s"]:
                for d in s["d"]:
                    if d[0] >= 0:
                        learn(d[0], d[1])
                        learn(d[0], d[3])
                tabs.append((s["lv"], s["len"], sorted((d[0], d[2]) for d in s["d"] if d[0] >= 0)))
            r = None
            if o["op"] in DETERMINISTIC_R:
                r = [proj(x) for x in (o["r"][:1] if o["op"] == "try_reserve" else o["r"])]
            out.append((o["op"], o["t"], o["k"], o["v"], r, o["pn"], sorted(str(proj(x)) for x in o["dr"]), tabs))
    return out


def compare_backends(run, name):
    a = os.path.join(vlib.TRACES, "%s_%s_sse2.ndjson" % (run.prop, name))
    b = os.path.join(vlib.TRACES, "%s_%s_generic.ndjson" % (run.prop, name))
    try:
        pa, pb = projection(a), projection(b)
    except OSError:
        return
    n = min(len(pa), len(pb))
    for i in range(n):
        if pa[i] != pb[i]:
            run.violation("API-level projections of the SSE2 and the portable build differ at event %d of %s: %s vs %s" % (
                i + 1, name, str(pa[i])[:300], str(pb[i])[:300]), {"kind": "backend-diff", "name": name, "event": i + 1,
                "sse2": str(pa[i])[:2000], "generic": str(pb[i])[:2000]}, signature="backend-diff:%s" % pa[i][0])
            return
    if len(pa) != len(pb):
        run.violation("traces of the two builds have different lengths for %s" % name, {"kind": "backend-diff", "name": name}, signature="backend-diff:len")
        return
    run.extra.setdefault("backend_projection_events_compared", 0)
    run.extra["backend_projection_events_compared"] += n
    vlib.log("  projections of %s equal on both builds (%d events)" % (name, n))


def c18(run):
    quick = run.tier == Q
    run.assumptions += COMMON_ASSUMPTIONS
    run.model("MC_group_q.cfg" if quick else "MC_group.cfg", "MC_group.tla", workers=8, timeout=900)
    n = 1 if quick else 4
    scen = {
        # det=1: order-insensitive API use only (no partially consumed extract_if, no equal duplicates in tables), because
        # which elements a partial traversal visits and which duplicate a lookup hits depend on the bucket layout
        "map": ["map:kv16:collide:24:%d:wide:det=1" % (700 * n), "map:k4v4:zero:14:%d:basic:det=1" % (400 * n), "map:kv16:fewpos:30:%d:entry:det=1" % (400 * n)],
        "tab": ["table:te24:collide:20:%d:table:det=1" % (600 * n), "set:k8t:collide:20:%d:setalg:det=1" % (500 * n)],
    }
    jobs = []
    for name, sc in scen.items():
        for be in ("sse2", "generic"):
            jobs.append(job(run, name, sc, backend=be))
    # the generated behaviours of both widths are replayed on both builds
    for W in (16, 8):
        for be in ("sse2", "generic"):
            jobs.append({"name": "corpus_w%d" % W, "backend": be,
                         "args": ["replay", "--seed", str(run.seed), os.path.join(vlib.VERIF, "corpus", "map_w%d.ndjson" % W)]})
    nr = "300" if quick else "3000"
    for be, W in (("sse2", 16), ("generic", 8)):
        jobs.append({"name": "prims", "backend": be, "args": ["prims", "--seed", str(run.seed), nr], "module": "HbGroupTrace.tla", "cfg": "HbGroupTrace.cfg"})
    run.traces_parallel(jobs, workers=6)
    for name in list(scen.keys()) + ["corpus_w16", "corpus_w8"]:
        compare_backends(run, name)
    return run.finish(rule="model: portable word tricks vs byte-wise definitions on all 2-byte windows of valid control bytes; code: scanner primitives of both "
                           "builds validated against the definitions, identical seeded histories and generated behaviours run on both builds, "
                           "each validated at its own width and compared event by event at the API level")


def c19(run):
    quick = run.tier == Q
    run.assumptions += COMMON_ASSUMPTIONS + ["real rayon schedules are sampled (pool sizes 1..64), the split-tree space is covered by the model and the split driver hook"]
    for cfg in ("MC_split_w2.cfg", "MC_split_w4.cfg", "MC_split_w8s.cfg"):
        run.model(cfg, "MC_split.tla", workers=8, timeout=600)
    n = 1 if quick else 4
    jobs = [
        {"name": "split", "backend": "sse2", "args": ["split", "--seed", str(run.seed), str(40 * n), "14"], "module": "HbSplitTrace.tla", "cfg": "HbSplitTrace.cfg"},
        {"name": "split", "backend": "generic", "args": ["split", "--seed", str(run.seed), str(40 * n), "14"], "module": "HbSplitTrace.tla", "cfg": "HbSplitTrace.cfg"},
        job(run, "par", ["map:kv16:collide:40:%d:par" % (600 * n), "map:k4v4:mixed:100:%d:par" % (300 * n)]),
        job(run, "parset", ["set:k8t:collide:30:%d:parset" % (500 * n), "table:te24:zero:40:%d:partable" % (400 * n)]),
    ]
    jobs += par_goal_jobs(run, ("map", "set", "table"), 16)
    if not quick:
        jobs += par_goal_jobs(run, ("map", "set", "table"), 8)
        jobs.append(job(run, "parg", ["map:kv16:collide:40:2000:par", "table:te24:fewpos:60:1500:partable"], backend="generic"))
        jobs.append(job(run, "par2", ["map:kv200:seq:200:1500:par", "set:k1:mixed:200:1500:parset"]))
    run.traces_parallel(jobs)
    return run.finish(rule="model: every interleaving of split / yield over all occupancy patterns of small tables; code: RawIterRange::split applied along random "
                           "decision trees on real tables (leaf index sets validated), real rayon runs with collecting and short-circuiting consumers on pools of 1..64 threads")


def c20(run):
    return generic_check(run, [("MC_serde.cfg", "MC_serde.tla", {"timeout": 300})], [("MC_serde_t.cfg", "MC_serde.tla", {"timeout": 900, "workers": 8})],
        [("serde", ["map:kv16:collide:24:900:serde", "map:k4v4:zero:14:400:serde"]),
         ("serdeset", ["set:k8t:collide:20:700:serdeset", "set:k1:fewpos:16:300:serdeset"])],
        [("serde2", ["map:kv24:mixed:40:4000:serde", "map:kv200:collide:20:2000:serde", "set:k8t:zero:14:3000:serdeset"]),
         ("serdeg", ["map:kv16:collide:24:2000:serde", "set:k8t:collide:20:2000:serdeset"], G)],
        "serialize/deserialize round trips of maps and sets built by random histories; deserialisation from mock inputs with repeated keys, "
        "honest / absent / lying size hints up to usize::MAX and an error injected at every position; contents, drops and the size of every "
        "allocation request validated")


def c13(run):
    return generic_check(run, [("MC_map_w2churn.cfg", "MC_map.tla", {"timeout": 300})], [],
        [("churn", ["map:kv16:zero:26:2500:churn", "map:kv16:collide:40:1500:churn"]),
         ("churn2", ["map:k4v4:max:24:2500:churn", "map:kv16:mixed:12:1000:churn"]),
         ("churn3", ["map:kv16:onegroup:30:2500:churn", "map:kv16:zero:10:1000:churn"]),
         ("churnwrap", ["map:kv16:wrap:30:2500:churn", "map:kv16:spread:26:1500:churn"]),
         {"name": "churngoals_w16", "backend": "sse2", "args": ["replay", "--seed", "@SEED@", "corpus/map_w16_churn.ndjson"]}],
        [("churn4", ["map:kv16:zero:26:20000:churn"], {"tlc_timeout": 1800}),
         ("churn5", ["map:kv24:collide:40:20000:churn"], {"tlc_timeout": 1800}),
         ("churng", ["map:kv16:zero:14:10000:churn"], {"backend": "generic", "tlc_timeout": 1800}),
         {"name": "churngoals_w8", "backend": "generic", "args": ["replay", "--seed", "@SEED@", "corpus/map_w8_churn.ndjson"]}],
        "model: insert/remove interleavings with bounded live size and unbounded buckets terminate with buckets <= bound; code: long churns, allocation_size bounded at every step; "
        "for every table size (Apalache, HbCount): the bookkeeping invariant is inductive and implies that an EMPTY byte exists, so every probe terminates", corpus=True, count=True)


def c14(run):
    return generic_check(run, [("MC_map_w2entry.cfg", "MC_map.tla", {"timeout": 300})], [("MC_map_w2entryip.cfg", "MC_map.tla", {"timeout": 1500, "workers": 12})],
        [("entry", ["map:kv16:collide:24:1500:entry", "map:kv16:zero:12:800:entry"]),
         ("entry2", ["map:k4v4:onegroup:14:800:entry", "set:k8t:collide:20:600:set"]),
         ("entrywrap", ["map:kv16:spread:26:1500:entry", "map:kv16:wrap:30:800:entry", "map:kv16:spread:60:800:entry"])],
        [("entry3", ["map:kv24:fewpos:30:4000:entry", "map:kv200:max:20:3000:entry"]),
         ("entryg", ["map:kv16:collide:24:3000:entry"], G)],
        "every entry / entry_ref / raw_entry / rustc_entry method chain on random states incl. full-load and tombstone-saturated tables, compared with the get/insert/remove semantics of the abstract map", corpus=True, goals=True, egoals=("map", "set", "table"))


def c15(run):
    return generic_check(run, [], [],
        [("many", ["map:kv16:collide:16:1500:many", "map:k4v4:zero:10:800:many"]),
         ("manychaos", ["map:kv16:zero:10:900:many:chaos=1", "map:kv16:collide:12:500:many:chaoseq=1"])],
        [("many2", ["map:kv24:lowbit:12:4000:many", "map:kv200:onegroup:14:3000:many"]),
         ("manyg", ["map:kv16:collide:16:3000:many"], G)],
        "random N-tuples (N = 0..4) incl. duplicates and absent keys; addresses of the returned references mapped to bucket indices and checked pairwise distinct", tgoals=True)


CHECKS = {
    "C01": c01,
    "C02": c02,
    "C03": c03,
    "C04": c04,
    "C05": c05,
    "C06": c06,
    "C07": c07,
    "C08": c08,
    "C09": c09,
    "C10": c10,
    "C11": c11,
    "C12": c12,
    "C13": c13,
    "C17": c17,
    "C18": c18,
    "C19": c19,
    "C20": c20,
    "C14": c14,
    "C15": c15,
}


def replay(prop, path, seed):
    """Re-runs the scenario of a replay file and validates it again (same seed, same harness arguments)."""
    with open(path) as f:
        obj = json.load(f)
    os.environ["VERIF_SEED"] = str(obj.get("seed", seed))
    run = vlib.Run(prop, "quick", obj.get("seed", seed))
    kind = obj.get("kind")
    if kind == "model":
        run.model(obj["cfg"], obj["module"])
    elif kind in ("trace", "crash") and obj.get("args"):
        args = obj["args"]
        if args[0] == "prims":
            run.trace("replay", obj["backend"], args, module="HbGroupTrace.tla", cfg="HbGroupTrace.cfg")
        elif args[0] == "split":
            run.trace("replay", obj["backend"], args, module="HbSplitTrace.tla", cfg="HbSplitTrace.cfg")
        elif args[0] == "layout":
            return CHECKS[prop](run)
        elif any("tablezst" in a for a in args):
            run.trace("replay", obj["backend"], args, module="HbZstTrace.tla", cfg="HbZstTrace.cfg")
        else:
            run.trace("replay", obj["backend"], args)
    else:
        # layout records, cross-build differences, symbolic obligations: re-run the whole check with the recorded seed
        return CHECKS[prop](run)
    return run.finish()
