"""Per-property check plans: which model configurations are explored exhaustively, which
behaviours are generated and replayed, which drivers are run and validated (DESIGN section 6)."""
import json
import os

import vlib

Q = "quick"

COMMON_ASSUMPTIONS = [
    "TLC 1.8 and the TLA+ standard/Community modules are correct; recorded traces are complete (hooks under cfg(hashbrown_verif) are read-only)",
    "exhaustive results hold for the stated constants (group width W, key universe, plan set); beyond them evidence is by validated implementation traces",
    "only the x86_64 SSE2 (W=16) and the 64-bit portable (W=8) back-ends are executed",
]


def drive(run, name, scens, backend="sse2", **kw):
    return run.trace(name, backend, ["drive", "--seed", str(run.seed)] + scens, **kw)


def job(run, name, scens, backend="sse2", **kw):
    d = {"name": name, "backend": backend, "args": ["drive", "--seed", str(run.seed)] + scens}
    d.update(kw)
    return d


# ------------------------------------------------------------------------------------------------
def c01(run):
    quick = run.tier == Q
    run.assumptions += COMMON_ASSUMPTIONS
    run.model("MC_map_w2q.cfg", "MC_map.tla", workers=8, timeout=300)
    if not quick:
        run.model("MC_map_w2t.cfg", "MC_map.tla", workers=12, timeout=1500)
        run.model("MC_map_w4t.cfg", "MC_map.tla", workers=12, timeout=1500)
    n = 1 if quick else 4
    drive(run, "basic", ["map:kv16:collide:24:%d:basic" % (900 * n), "map:kv24:max:20:%d:basic" % (400 * n),
                         "map:k4v4:fewpos:30:%d:basic" % (500 * n), "map:kv16:onegroup:12:%d:basic" % (400 * n)])
    drive(run, "entry", ["map:kv16:zero:14:%d:entry" % (600 * n), "map:kv16:mixed:40:%d:wide" % (700 * n)])
    if not quick:
        drive(run, "wide2", ["map:kv200:posfix:30:3000:wide", "map:kva64:tagfix:30:3000:wide", "map:k1v4:lowbit:12:2000:wide",
                             "map:kv16:seq:48:4000:basic"])
        drive(run, "basic", ["map:kv16:collide:24:3000:basic", "map:kv24:max:20:1500:entry", "map:k4v4:fewpos:30:2000:wide",
                             "map:kv16:onegroup:12:1500:wide", "map:kv16:zero:10:1500:wide"], backend="generic")
    return run.finish(rule="exhaustive: all operation sequences over the key universe under every hash plan of the plan set; "
                           "traces: random walks over the HashMap API under adversarial plan families, every step validated")


def generic_check(run, models_q, models_t, jobs_q, jobs_t, rule):
    quick = run.tier == Q
    run.assumptions += COMMON_ASSUMPTIONS
    for m in (models_q if quick else models_q + models_t):
        run.model(*m[:2], **(m[2] if len(m) > 2 else {}))
    jobs = jobs_q if quick else jobs_q + jobs_t
    run.traces_parallel([job(run, *j[:2], **(j[2] if len(j) > 2 else {})) for j in jobs])
    return run.finish(rule=rule)


G = {"backend": "generic"}


def c03(run):
    return generic_check(run, [("MC_map_w2q.cfg", "MC_map.tla", {"timeout": 300})], [],
        [("drops", ["map:kv16:collide:24:1200:wide", "map:kv24:zero:12:600:iter", "map:kv16:fewpos:20:600:two"]),
         ("setdrops", ["set:k8t:collide:20:700:set", "set:k8t:fewpos:16:700:setalg"])],
        [("drops2", ["map:kv200:collide:30:3000:wide", "map:kva64:max:20:2000:iter", "map:kv16:onegroup:14:3000:two"]),
         ("dropsg", ["map:kv16:collide:24:3000:wide", "set:k8t:zero:14:2000:setalg"], G)],
        "every element id and allocator block is followed through every call: drops observed in each call = drops of the abstract machine; block ledger = layouts of the live tables")


def c06(run):
    return generic_check(run, [], [],
        [("table", ["table:te24:collide:20:1200:table", "table:te24:zero:12:700:table:plan2=mixed", "table:t1:fewpos:16:500:table"]),
         ("table2", ["table:te32:onegroup:14:800:table", "table:te24:mixed:30:600:table:plan2=collide"])],
        [("table3", ["table:te208:collide:24:4000:table", "table:tea64:max:16:3000:table", "table:te24:lowbit:14:3000:table"]),
         ("tableg", ["table:te24:collide:20:3000:table", "table:t1:zero:14:2000:table"], G)],
        "HashTable operations with caller-supplied hashes (two plans, duplicates of equal elements) validated against the multiset specification; iter_hash outputs, remove + re-insert through the returned VacantEntry, entry() at full load")


def c07(run):
    return generic_check(run, [], [],
        [("sets", ["set:k8t:collide:20:900:set", "set:k8t:fewpos:16:1200:setalg", "set:k4:zero:12:700:setalg:plan2=mixed"]),
         ("sets2", ["set:k8t:mixed:24:900:setalg:plan2=collide", "set:k1:onegroup:16:700:set"])],
        [("sets3", ["set:k8t:collide:20:4000:setalg:plan2=max", "set:k2:posfix:14:3000:setalg", "set:k8:tagfix:30:3000:set"]),
         ("setsg", ["set:k8t:collide:20:3000:setalg", "set:k8t:zero:12:2000:set"], G)],
        "pairs of sets built by random histories under independent hash plans; every algebra iterator, predicate, operator and assigning form compared with the mathematical result")


def c08(run):
    return generic_check(run, [("MC_map_w2q.cfg", "MC_map.tla", {"timeout": 300})], [],
        [("cap", ["map:kv16:collide:24:1200:cap", "map:k4v4:zero:14:700:cap", "map:kv200:mixed:40:500:cap"]),
         ("capset", ["set:k1:collide:20:700:set", "set:k2:fewpos:16:500:set"])],
        [("cap2", ["map:kv24:onegroup:14:3000:cap", "map:kva64:fewpos:30:3000:cap", "map:k1v4:max:12:3000:cap"]),
         ("capg", ["map:kv16:collide:24:3000:cap", "set:k1:zero:14:2000:set"], G)],
        "capacity()/len()/allocation_size() and allocator events recorded around every call and checked against the capacity contract on tombstoned states")


def c09(run):
    return generic_check(run, [], [],
        [("iter", ["map:kv16:collide:40:1200:iter", "map:k4v4:zero:24:600:iter", "map:kv24:mixed:60:500:iter"]),
         ("iterset", ["set:k8t:collide:40:700:set", "set:k1:zero:30:500:set"])],
        [("iter2", ["map:kv16:onegroup:12:3000:iter", "map:kv200:fewpos:60:3000:iter", "map:kv16:max:40:3000:iter"]),
         ("iterg", ["map:kv16:collide:40:3000:iter", "set:k8t:zero:30:2000:set"], G)],
        "every wrapper iterator walked with next/fold switch and clone points in every visited state; bucket index of each yield and every size_hint/len validated")


def c10(run):
    return generic_check(run, [("MC_map_w2sel.cfg", "MC_map.tla", {"timeout": 300})], [],
        [("sel", ["map:kv16:collide:40:1200:iter", "map:kv24:zero:24:700:iter"]),
         ("selset", ["set:k8t:collide:30:800:set"])],
        [("sel2", ["map:kv16:onegroup:12:3000:iter", "map:kv200:fewpos:60:3000:iter"]),
         ("selg", ["map:kv16:collide:40:3000:iter", "set:k8t:zero:30:2000:set"], G)],
        "retain / extract_if / drain with random predicates (subsets) and early-drop points; predicate calls, yields and post-state validated")


def c11(run):
    return generic_check(run, [], [],
        [("two", ["map:kv16:collide:24:1200:two:plan2=mixed", "map:kv24:zero:14:700:two:plan2=fewpos"]),
         ("twoset", ["set:k8t:collide:20:900:setalg:plan2=mixed"])],
        [("two2", ["map:kv200:onegroup:14:3000:two", "map:kva64:fewpos:30:3000:two:plan2=collide"]),
         ("twog", ["map:kv16:collide:24:3000:two:plan2=mixed"], G)],
        "ordered pairs (target, source) of tables built by random histories under different plans; clone / clone_from / == validated incl. fresh identities of the clones and later independence")


def c13(run):
    return generic_check(run, [("MC_map_w2churn.cfg", "MC_map.tla", {"timeout": 300})], [],
        [("churn", ["map:kv16:collide:12:3000:churn", "map:kv16:zero:10:2000:churn"]),
         ("churn2", ["map:k4v4:fewpos:14:3000:churn", "map:kv16:mixed:12:2000:churn"])],
        [("churn3", ["map:kv16:collide:12:20000:churn"], {"tlc_timeout": 1800}),
         ("churng", ["map:kv16:zero:10:10000:churn"], {"backend": "generic", "tlc_timeout": 1800})],
        "model: insert/remove interleavings with bounded live size and unbounded buckets terminate with buckets <= bound; code: long churns, allocation_size bounded at every step")


def c14(run):
    return generic_check(run, [("MC_map_w2entry.cfg", "MC_map.tla", {"timeout": 300})], [],
        [("entry", ["map:kv16:collide:24:1500:entry", "map:kv16:zero:12:800:entry"]),
         ("entry2", ["map:k4v4:onegroup:14:800:entry", "set:k8t:collide:20:600:set"])],
        [("entry3", ["map:kv24:fewpos:30:4000:entry", "map:kv200:max:20:3000:entry"]),
         ("entryg", ["map:kv16:collide:24:3000:entry"], G)],
        "every entry / entry_ref / raw_entry / rustc_entry method chain on random states incl. full-load and tombstone-saturated tables, compared with the get/insert/remove semantics of the abstract map")


def c15(run):
    return generic_check(run, [], [],
        [("many", ["map:kv16:collide:16:1500:many", "map:k4v4:zero:10:800:many"])],
        [("many2", ["map:kv24:lowbit:12:4000:many", "map:kv200:onegroup:14:3000:many"]),
         ("manyg", ["map:kv16:collide:16:3000:many"], G)],
        "random N-tuples (N = 0..4) incl. duplicates and absent keys; addresses of the returned references mapped to bucket indices and checked pairwise distinct")


CHECKS = {
    "C01": c01,
    "C03": c03,
    "C06": c06,
    "C07": c07,
    "C08": c08,
    "C09": c09,
    "C10": c10,
    "C11": c11,
    "C13": c13,
    "C14": c14,
    "C15": c15,
}


def replay(prop, path, seed):
    """Re-runs the scenario of a replay file and validates it again."""
    with open(path) as f:
        obj = json.load(f)
    run = vlib.Run(prop, "quick", obj.get("seed", seed))
    kind = obj.get("kind")
    if kind == "model":
        run.model(obj["cfg"], obj["module"])
    elif kind in ("trace", "crash"):
        run.trace("replay", obj["backend"], obj["args"])
    else:
        print("unknown replay kind")
        return 2
    return run.finish()
