"""C17: capacity / layout arithmetic.  TLC checks spec/HbLayout.tla exhaustively at scaled word sizes, Apalache
checks it symbolically at 64 bits, and the values recorded from the real functions (harness `layout`) are validated
against the same module: small values by TLC, 64-bit values and whole capacity intervals by Apalache."""
import json
import os
import random
import re
import shutil
import subprocess
import time

import vlib

U64 = 18446744073709551615
I64 = 9223372036854775807


def apalache(module_text, name, inv="Inv", init="Init", timeout=900):
    d = os.path.join(vlib.WORK, "apa_%s_%d" % (name, os.getpid()))
    shutil.rmtree(d, ignore_errors=True)
    os.makedirs(d)
    shutil.copy(os.path.join(vlib.SPEC, "HbLayout.tla"), d)
    with open(os.path.join(d, name + ".tla"), "w") as f:
        f.write(module_text)
    t0 = time.time()
    p = subprocess.run(["timeout", str(timeout), "apalache-mc", "check", "--init=" + init, "--next=Next", "--inv=" + inv, "--length=0",
                        "--out-dir=" + os.path.join(d, "out"), name + ".tla"], cwd=d, stdout=subprocess.PIPE, stderr=subprocess.STDOUT, text=True)
    out = p.stdout
    res = {"name": name, "wall_s": round(time.time() - t0, 1), "ok": "The outcome is: NoError" in out,
           "violated": "The outcome is: Error" in out or "violation" in out.lower() and "no error" not in out.lower(), "rc": p.returncode}
    if not res["ok"]:
        res["out"] = out[-2500:]
        # keep the counterexample if any
        cex = []
        for root, _, files in os.walk(os.path.join(d, "out")):
            for fn in files:
                if fn.startswith("violation") and fn.endswith(".tla"):
                    cex.append(open(os.path.join(root, fn)).read()[:3000])
        res["counterexample"] = cex[:1]
    shutil.rmtree(d, ignore_errors=True)
    return res


HEAD = """---- MODULE %s ----
EXTENDS Integers
VARIABLES
  \\* @type: Int;
  kind,
  \\* @type: Int;
  x,
  \\* @type: Int;
  y,
  \\* @type: Int;
  z,
  \\* @type: Int;
  e1,
  \\* @type: Int;
  e2,
  \\* @type: Int;
  e3
L == INSTANCE HbLayout WITH UMAX <- %d, IMAX <- %d, GW <- %d, BITS <- 64
"""

def tail(W):
    return """
Next == UNCHANGED <<kind, x, y, z, e1, e2, e3>>
\\* STRICT form: the recorded value equals the specification's arithmetic (kinds 1-3); kinds 0 and 4 are the symbolic C17 obligations
Inv ==
  /\\ (kind = 0 => L!BucketsOK(x, y))
  /\\ (kind = 1 => L!C2B(x, y) = e1)
  /\\ (kind = 2 => LET r == L!LayoutFor(x, L!CtrlAlignL(y), z)
                  IN ((r.ok <=> (e1 = 1)) /\\ (r.ok => (r.len = e2 /\\ r.off = e3))))
  /\\ (kind = 3 => L!CapOfMask(x) = e1)
  /\\ (kind = 4 => L!LayoutOK(x, y, z))
\\* PROPERTY form for recorded values: the policy-free statement of C17 (kind 1: e2 = recorded capacity of the chosen bucket count)
InvP ==
  /\\ (kind = 1 => (e1 = -1 \\/ (e1 \\in L!Pows /\\ e2 >= x /\\ e2 < e1)))
  /\\ (kind = 2 => ((e1 = 1) => (e3 >= x * z /\\ e3 %% y = 0 /\\ e2 >= e3 + z + %d /\\ e2 + (L!CtrlAlignL(y) - 1) <= %d)))
  /\\ (kind = 3 => (e1 <= x))
====
""" % (W, I64)


def module(name, W, disjuncts):
    body = "Init ==\n" + "\n".join("  \\/ (%s)" % d for d in disjuncts)
    return HEAD % (name, U64, I64, W) + body + tail(W)


def dj(kind, x, y, z, e1=0, e2=0, e3=0):
    return "kind = %d /\\ x %s /\\ y %s /\\ z = %d /\\ e1 = %d /\\ e2 = %d /\\ e3 = %d" % (kind, x, y, z, e1, e2, e3)


def symbolic_checks(run, W, npairs):
    """BucketsOK for all 64-bit capacities and sizes; LayoutOK for all 64-bit sizes per literal (buckets, align) pair."""
    res = []
    r = apalache(module("SymC2B", W, [dj(0, "\\in 1..%d" % U64, "\\in 0..%d" % U64, 0)]), "SymC2B")
    res.append(r)
    pairs = []
    for k in range(0, 64):
        for a in range(0, 13):
            pairs.append((1 << k, 1 << a))
    rnd = random.Random(run.seed)
    must = [(4, 1), (8, 8), (16, 16), (1 << 20, 64), (1 << 59, 1), (1 << 60, 1), (1 << 62, 1), (1 << 63, 1), (8, 4096), (1 << 40, 32)]
    sel = must + rnd.sample(pairs, max(0, npairs - len(must)))
    # size = ealign * q with q symbolic (sizes are multiples of the alignment); the product stays linear because
    # buckets and ealign are literals
    ds = []
    for (b, ea) in sel:
        ds.append("kind = 4 /\\ x \\in 0..%d /\\ y = %d /\\ z = %d /\\ e1 = 0 /\\ e2 = 0 /\\ e3 = 0 /\\ x %% %d = 0" % (U64, ea, b, ea))
    r2 = apalache(module("SymLay", W, ds), "SymLay")
    r2["pairs"] = len(sel)
    res.append(r2)
    return res


def count_checks(run):
    """HbCount (counter abstraction of the table bookkeeping, every table size): IndInv is inductive and implies that an
    EMPTY byte always exists and capacity() >= len().  Three Apalache obligations; a failure is a defect of the specification."""
    out = []
    for name, args in (("CountInit", ["--init=Init", "--inv=IndInv", "--length=0"]),
                       ("CountStep", ["--init=IndInit", "--inv=IndInv", "--length=1"]),
                       ("CountCons", ["--init=IndInit", "--inv=Consequences", "--length=0"])):
        d = os.path.join(vlib.WORK, "apa_%s_%d" % (name, os.getpid()))
        shutil.rmtree(d, ignore_errors=True)
        os.makedirs(d)
        shutil.copy(os.path.join(vlib.SPEC, "HbCount.tla"), d)
        t0 = time.time()
        p = subprocess.run(["timeout", "600", "apalache-mc", "check", "--next=Next", "--out-dir=" + os.path.join(d, "out")] + args + ["HbCount.tla"],
                           cwd=d, stdout=subprocess.PIPE, stderr=subprocess.STDOUT, text=True)
        ok = "The outcome is: NoError" in p.stdout
        r = {"name": name, "ok": ok, "wall_s": round(time.time() - t0, 1), "violated": "The outcome is: Error" in p.stdout}
        if not ok:
            r["out"] = p.stdout[-2000:]
        shutil.rmtree(d, ignore_errors=True)
        vlib.log("  apalache %-10s (all table sizes) %s in %.1fs" % (name, "NoError" if ok else "FAILED", r["wall_s"]))
        if not ok:
            if r["violated"]:
                run.violation("HbCount: the bookkeeping invariant is not inductive (%s)" % name, {"kind": "apalache", "name": name}, signature="apalache:" + name)
            else:
                run.tool_error("Apalache failed: %s" % r.get("out"))
        out.append(r)
    run.extra["counter_abstraction_unbounded"] = {"obligations": len(out), "discharged": sum(1 for r in out if r["ok"]),
        "statement": "for every bucket count: items + deleted + growth_left = capacity(buckets) is inductive over the raw steps and implies "
                     "an EMPTY control byte exists (probe termination), at least buckets/8 of them for buckets >= 8, and capacity() >= len()"}
    return out


def split_records(path):
    small, big = [], []
    with open(path) as f:
        for line in f:
            o = json.loads(line)
            if o["f"] in ("hdr",):
                W = o["W"]
                continue
            if o["f"] in ("tl", "probe"):
                small.append(o)
                continue
            nums = [int(o[k]) for k in o if k not in ("f",) and isinstance(o[k], str)]
            nums += [o[k] for k in o if isinstance(o[k], int)]
            prod = int(o["size"]) * int(o["buckets"]) if o["f"] == "lay" else 0
            if all(abs(n) < 2 ** 27 for n in nums) and prod < 2 ** 29:
                small.append({k: (int(v) if isinstance(v, str) and k != "f" else v) for k, v in o.items()})
            else:
                big.append(o)
    return W, small, big


def validate_recorded(run, backend, scan_bits, window, nbig, release=False):
    exe = vlib.build(backend, release)
    raw = os.path.join(vlib.TRACES, "C17_layout_%s.ndjson" % backend)
    rc, err = vlib.run_harness(exe, ["layout", "--seed", str(run.seed), str(scan_bits), str(window)], raw, timeout=3000)
    if rc != 0:
        run.violation("layout recorder terminated abnormally (rc=%s): %s" % (rc, err[-500:]), {"kind": "crash", "backend": backend,
                      "args": ["layout", str(scan_bits), str(window)]}, signature="crash:layout")
        return
    W, small, big = split_records(raw)
    # ---- small values: TLC
    sp = os.path.join(vlib.TRACES, "C17_small_%s.ndjson" % backend)
    with open(sp, "w") as f:
        for o in small:
            # uniform field set for TLC
            rec = {"f": o["f"], "size": o.get("size", 0), "a": o.get("a", 0), "b": o.get("b", 0), "v": o.get("v", 0),
                   "mask": o.get("mask", 0), "ea": o.get("ea", 1), "buckets": o.get("buckets", 1), "ok": o.get("ok", 0),
                   "len": o.get("len", 0), "align": o.get("align", 0), "off": o.get("off", 0), "tsize": o.get("tsize", 0),
                   "ctrl_align": o.get("ctrl_align", 0), "start": o.get("start", 0), "n": o.get("n", 0), "ps": o.get("ps", []),
                   "perm": o.get("perm", 0), "cm": o.get("cm", 0)}
            f.write(json.dumps(rec) + "\n")
    res = vlib.tlc_trace(sp, W, run.prop, module="HbLayoutTrace.tla", cfg="HbLayoutTrace.cfg")
    run.traces.append({"name": "layout-small", "backend": backend, "records": len(small), **{k: res.get(k) for k in ("steps", "rejected", "line", "reasons", "wall_s")}})
    if res.get("toolerror"):
        run.tool_error("TLC layout trace validation failed: %s" % res.get("out"))
    else:
        run.steps += res["steps"]
        vlib.log("  layout records (<2^30)  [%s] %6d validated by TLC in %.1fs %s" % (backend, res["steps"], res["wall_s"], "REJECTED" if res["rejected"] else "accepted"))
        if res["rejected"]:
            ev = open(sp).readlines()[res["line"] - 1].strip()
            run.violation("recorded value of the real arithmetic differs from HbLayout: %s (%s)" % (ev[:300], "; ".join(res["reasons"])),
                          {"kind": "layout", "backend": backend, "record": ev}, signature="layout:small")
        elif len(run.samples) < 4:
            run.samples.append({"layout_records": [json.dumps(x) for x in small[:2]]})
    # ---- 64-bit values: Apalache (intervals symbolically, samples literally)
    seen = set()
    ds = []
    recs = []
    for o in big:
        if o["f"] == "c2b":
            a, b, v, size = int(o["a"]), int(o["b"]), int(o["v"]), o["size"]
            key = ("c2b", a, b, v, size if a < 15 else -1)
            if key in seen:
                continue
            seen.add(key)
            ds.append(dj(1, "\\in %d..%d" % (a, b), "= %d" % size, 0, v, int(o.get("cm", "0"))))
            recs.append(o)
        elif o["f"] == "lay":
            key = ("lay", o["size"], o["ea"], o["buckets"])
            if key in seen:
                continue
            seen.add(key)
            ds.append(dj(2, "= %d" % int(o["size"]), "= %d" % o["ea"], int(o["buckets"]), o["ok"], int(o["len"]), int(o["off"])))
            recs.append(o)
        elif o["f"] == "cap":
            ds.append(dj(3, "= %d" % int(o["mask"]), "= 0", 0, int(o["v"])))
            recs.append(o)
    idx = list(range(len(ds)))
    if nbig and len(idx) > nbig:
        # the records that sit on a guard of the checked arithmetic first, then a seeded random sample of the rest
        prio = []
        for i, o in enumerate(recs):
            if o["f"] == "c2b" and int(o["a"]) >= 2 ** 59:
                prio.append(i)
            if o["f"] == "lay" and i + 1 < len(recs) and recs[i + 1]["f"] == "lay" and recs[i + 1]["ok"] != o["ok"] \
                    and recs[i + 1]["buckets"] == o["buckets"] and recs[i + 1]["ea"] == o["ea"]:
                prio += [i, i + 1]
        prio = sorted(set(prio))
        rnd = random.Random(run.seed + 7)
        if len(prio) > nbig:
            prio = sorted(rnd.sample(prio, nbig))
        rest = [i for i in idx if i not in set(prio)]
        idx = sorted(prio + rnd.sample(rest, max(0, min(len(rest), nbig - len(prio)))))
    chunks = [idx[i:i + 150] for i in range(0, len(idx), 150)]
    from concurrent.futures import ThreadPoolExecutor

    def one(ci):
        c = chunks[ci]
        nm = "Rec%d_%s" % (ci, backend)
        return ci, apalache(module(nm, W, [ds[i] for i in c]), nm)

    nval = 0
    with ThreadPoolExecutor(max_workers=4) as ex:
        for ci, r in ex.map(one, range(len(chunks))):
            if r["ok"]:
                nval += len(chunks[ci])
            elif r.get("violated") or r.get("counterexample"):
                # strict mismatch: decide record by record whether the policy-free statement of C17 still holds (drift) or not (violation)
                for i in chunks[ci]:
                    nm1 = "One_%s" % backend
                    r1 = apalache(module(nm1, W, [ds[i]]), nm1)
                    if r1["ok"]:
                        nval += 1
                        continue
                    r2 = apalache(module(nm1, W, [ds[i]]), nm1, inv="InvP")
                    if r2["ok"]:
                        run.drift += 1
                        run.notes.append("DRIFT: recorded arithmetic differs from HbLayout but satisfies C17: %s" % json.dumps(recs[i])[:200])
                        nval += 1
                    else:
                        run.violation("recorded 64-bit value / interval of the real arithmetic violates C17: %s" % json.dumps(recs[i]),
                                      {"kind": "layout", "backend": backend, "record": recs[i], "apalache": r2.get("counterexample")}, signature="layout:big")
                        break
            else:
                run.tool_error("Apalache failed on recorded layout values: %s" % r.get("out"))
    run.extra.setdefault("apalache_validated_records", 0)
    run.extra["apalache_validated_records"] += nval
    run.steps += nval
    vlib.log("  layout records (64-bit) [%s] %6d of %d distinct validated by Apalache" % (backend, nval, len(ds)))
    if recs and len(run.samples) < 5:
        run.samples.append({"layout_records_64bit": [json.dumps(recs[0]), json.dumps(recs[len(recs) // 2])]})
