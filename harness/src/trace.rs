//! NDJSON trace events (schema: DESIGN.md appendix B, as implemented here).
//!
//! Every event carries the call, its result, the oracle answers consumed, registry and allocator
//! events of the window, and the dumped state of every table of the scenario after the call.

use crate::env;
use std::fmt::Write as _;
use std::io::Write;

#[derive(Clone, Default, Debug)]
pub struct TState {
    pub live: bool,
    pub m: usize,
    pub it: usize,
    pub g: usize,
    pub c: Vec<u8>,
    /// per bucket: class, key id, value, value id, pos, tag (all -1 when not FULL)
    pub d: Vec<[i64; 6]>,
    pub len: usize,
    pub cap: usize,
    pub asz: usize,
    pub pl: u8,
}

impl TState {
    pub fn dead(w: usize) -> TState {
        TState {
            live: false,
            m: 0,
            it: 0,
            g: 0,
            c: vec![255; w],
            d: vec![[-1; 6]],
            len: 0,
            cap: 0,
            asz: 0,
            pl: 0,
        }
    }
}

#[derive(Clone, Default, Debug)]
pub struct Event {
    pub op: String,
    pub t: usize,
    pub u: usize,
    pub k: i64,
    pub id: i64,
    pub v: i64,
    pub vid: i64,
    pub n: i64,
    pub j: i64,
    pub ks: Vec<i64>,
    pub r: Vec<i64>,
    pub y: Vec<Vec<i64>>,
    pub pn: String,
    /// armed fault: class ("" none) and invocation index
    pub fa: String,
    pub fk: i64,
}

impl Event {
    pub fn new(op: &str, t: usize) -> Event {
        Event {
            op: op.to_string(),
            t,
            k: -1,
            pn: String::new(),
            ..Default::default()
        }
    }
}

fn jarr<T: std::fmt::Display>(s: &mut String, v: &[T]) {
    s.push('[');
    for (i, x) in v.iter().enumerate() {
        if i > 0 {
            s.push(',');
        }
        let _ = write!(s, "{}", x);
    }
    s.push(']');
}

pub struct Tracer {
    out: Box<dyn Write>,
    pub seq: u64,
    pub lines: u64,
}

impl Tracer {
    pub fn new(path: &str) -> Tracer {
        let out: Box<dyn Write> = if path == "-" {
            Box::new(std::io::BufWriter::new(std::io::stdout()))
        } else {
            Box::new(std::io::BufWriter::with_capacity(
                1 << 20,
                std::fs::File::create(path).expect("cannot create trace file"),
            ))
        };
        Tracer { out, seq: 0, lines: 0 }
    }

    pub fn raw(&mut self, line: &str) {
        self.out.write_all(line.as_bytes()).unwrap();
        self.out.write_all(b"\n").unwrap();
        self.lines += 1;
    }

    pub fn flush(&mut self) {
        self.out.flush().unwrap();
    }

    /// Scenario header. `plans[pl][class] = hash`.
    #[allow(clippy::too_many_arguments)]
    pub fn reset(
        &mut self,
        kind: &str,
        scen: &str,
        w: usize,
        es: usize,
        ea: usize,
        nd: bool,
        tracked: bool,
        nt: usize,
        mode: &str,
        seed: u64,
    ) {
        // live-size bound of churn scenarios (C13): parsed from the scenario name kind:layout:plan:nkeys:ops:mix
        let parts: Vec<&str> = scen.split(':').collect();
        let nk: u64 = parts.get(3).and_then(|x| x.parse().ok()).unwrap_or(0);
        let churn = parts.get(5).map_or(false, |m| *m == "churn") as u8;
        let mut s = String::new();
        let _ = write!(
            s,
            "{{\"op\":\"reset\",\"kind\":\"{}\",\"scen\":\"{}\",\"W\":{},\"es\":{},\"ea\":{},\"nd\":{},\"tr\":{},\"nt\":{},\"mode\":\"{}\",\"seed\":{},\"nk\":{},\"churn\":{},\"plans\":[",
            kind, scen, w, es, ea, nd as u8, tracked as u8, nt, mode, seed % 1_000_000_007, nk, churn
        );
        let plans = env::with(|e| e.plans.clone());
        for (i, p) in plans.iter().enumerate() {
            if i > 0 {
                s.push(',');
            }
            s.push('[');
            for (j, h) in p.iter().enumerate() {
                if j > 0 {
                    s.push(',');
                }
                let _ = write!(s, "[{},{}]", env::hpos(*h), env::htag(*h));
            }
            s.push(']');
        }
        s.push_str("]}");
        self.raw(&s);
    }

    /// Writes one completed call. Registry / allocator / oracle logs are taken from the window.
    pub fn emit(&mut self, ev: &Event, states: &[TState]) {
        self.seq += 1;
        let (drops, allocs, hc, ec, cc, hlog, elog, nlive, created) = env::with(|e| {
            let mut d = e.drops.clone();
            d.sort();
            (
                d,
                e.alloc_events.clone(),
                e.hash_calls,
                e.eq_calls,
                e.clone_calls,
                e.hash_log.clone(),
                e.eq_log.clone(),
                e.live.len(),
                e.created.clone(),
            )
        });
        let bl = env::live_blocks();
        let mut s = String::with_capacity(1024);
        let _ = write!(
            s,
            "{{\"op\":\"{}\",\"t\":{},\"u\":{},\"k\":{},\"id\":{},\"v\":{},\"vid\":{},\"n\":{},\"j\":{},\"fa\":\"{}\",\"fk\":{},\"ks\":",
            ev.op, ev.t, ev.u, ev.k, ev.id, ev.v, ev.vid, ev.n, ev.j, ev.fa, ev.fk
        );
        jarr(&mut s, &ev.ks);
        s.push_str(",\"r\":");
        jarr(&mut s, &ev.r);
        s.push_str(",\"y\":[");
        for (i, y) in ev.y.iter().enumerate() {
            if i > 0 {
                s.push(',');
            }
            jarr(&mut s, y);
        }
        s.push_str("],\"dr\":");
        jarr(&mut s, &drops);
        s.push_str(",\"nw\":");
        jarr(&mut s, &created);
        s.push_str(",\"al\":[");
        for (i, a) in allocs.iter().enumerate() {
            if i > 0 {
                s.push(',');
            }
            let _ = write!(s, "[{},{},{}]", a.0, a.1, a.2);
        }
        let _ = write!(s, "],\"hc\":{},\"ec\":{},\"cc\":{},\"nl\":{},\"pn\":\"{}\",\"hl\":[", hc, ec, cc, nlive, ev.pn);
        for (i, h) in hlog.iter().enumerate() {
            if i > 0 {
                s.push(',');
            }
            let _ = write!(s, "[{},{}]", env::hpos(*h), env::htag(*h));
        }
        s.push_str("],\"el\":");
        jarr(&mut s, &elog);
        s.push_str(",\"bl\":[");
        for (i, b) in bl.iter().enumerate() {
            if i > 0 {
                s.push(',');
            }
            let _ = write!(s, "[{},{}]", b.0, b.1);
        }
        s.push_str("],\"s\":[");
        for (i, st) in states.iter().enumerate() {
            if i > 0 {
                s.push(',');
            }
            let _ = write!(
                s,
                "{{\"lv\":{},\"m\":{},\"it\":{},\"g\":{},\"len\":{},\"cap\":{},\"asz\":{},\"pl\":{},\"c\":",
                st.live as u8, st.m, st.it, st.g, st.len, st.cap, st.asz, st.pl
            );
            jarr(&mut s, &st.c);
            s.push_str(",\"d\":[");
            for (j, d) in st.d.iter().enumerate() {
                if j > 0 {
                    s.push(',');
                }
                jarr(&mut s, &d[..]);
            }
            s.push_str("]}");
        }
        s.push_str("]}");
        self.raw(&s);
    }
}
