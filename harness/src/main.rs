#![allow(dead_code)]
//! hbv: conformance harness binding the TLA+ specification of hashbrown to the real collections.
//!
//! Sub-commands:
//!   drive  --out FILE --seed N  SCEN...   random / adversarial drivers (impl -> spec traces)
//!   replay --out FILE BEHAVIOURS.ndjson  replays TLC-generated behaviours (spec -> impl)
//! A scenario is `kind:layout:plan:nkeys:ops:mix[:opt=val,...]`.

mod env;
mod layoutcmd;
mod mapdrv;
mod primscmd;
mod scen;
mod setdrv;
mod splitcmd;
mod tabledrv;
mod trace;

use std::process::exit;

fn main() {
    let args: Vec<String> = std::env::args().collect();
    if args.len() < 2 {
        eprintln!("usage: hbv <drive|replay|...> ...");
        exit(2);
    }
    // injected panics are data, keep stderr quiet for them
    std::panic::set_hook(Box::new(|info| {
        if info.payload().downcast_ref::<env::InjectedPanic>().is_some() {
            return;
        }
        let msg = if let Some(s) = info.payload().downcast_ref::<&str>() {
            s.to_string()
        } else if let Some(s) = info.payload().downcast_ref::<String>() {
            s.clone()
        } else {
            "?".to_string()
        };
        if std::env::var("HBV_VERBOSE").is_ok() {
            eprintln!("panic: {} at {:?}", msg, info.location());
        }
    }));
    let mut out = "-".to_string();
    let mut seed: u64 = std::env::var("VERIF_SEED").ok().and_then(|s| s.parse().ok()).unwrap_or(1);
    let mut rest: Vec<String> = vec![];
    let mut i = 2;
    while i < args.len() {
        match args[i].as_str() {
            "--out" => {
                out = args[i + 1].clone();
                i += 2;
            }
            "--seed" => {
                seed = args[i + 1].parse().expect("seed");
                i += 2;
            }
            _ => {
                rest.push(args[i].clone());
                i += 1;
            }
        }
    }
    let code = match args[1].as_str() {
        "drive" => scen::drive(&out, seed, &rest),
        "replay" => scen::replay(&out, seed, &rest),
        "layout" => layoutcmd::run(&out, seed, &rest),
        "prims" => primscmd::run(&out, seed, &rest),
        "split" => splitcmd::run(&out, seed, &rest),
        "width" => {
            println!("{}", hashbrown::verif::GROUP_WIDTH);
            0
        }
        other => {
            eprintln!("unknown sub-command {}", other);
            2
        }
    };
    exit(code);
}
