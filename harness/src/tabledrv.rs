//! HashTable (explicit-hash API) operation executor.

use crate::env::{self, CheckingAlloc, InjectedPanic, Pad};
use crate::mapdrv::classify_panic;
use crate::trace::{Event, TState, Tracer};
use hashbrown::hash_table::Entry;
use hashbrown::HashTable;
use std::any::Any;
use std::panic::{catch_unwind, AssertUnwindSafe};

pub trait ElemT: Clone + Send + Sync + 'static {
    const TRACKED: bool;
    fn make(class: u32, v: u32, h: u64) -> Self;
    fn class(&self) -> u32;
    fn id(&self) -> u32;
    fn v(&self) -> u32;
    fn set_v(&mut self, v: u32);
    fn h(&self) -> u64;
}

/// Tracked element carrying the hash it was inserted with.
pub struct TE<P: Pad> {
    pub class: u32,
    pub id: u32,
    pub v: u32,
    pub h: u64,
    pub pad: P,
}
impl<P: Pad> Clone for TE<P> {
    fn clone(&self) -> Self {
        env::check_live(self.id, "TE::clone");
        env::clone_hook();
        let id = env::new_id();
        env::with(|e| e.clones.push((self.id, id)));
        TE { class: self.class, id, v: self.v, h: self.h, pad: self.pad }
    }
}
impl<P: Pad> Drop for TE<P> {
    fn drop(&mut self) {
        env::note_drop(self.id);
    }
}
impl<P: Pad> ElemT for TE<P> {
    const TRACKED: bool = true;
    fn make(class: u32, v: u32, h: u64) -> Self {
        TE { class, id: env::new_id(), v, h, pad: P::default() }
    }
    fn class(&self) -> u32 {
        env::check_live(self.id, "TE::class");
        self.class
    }
    fn id(&self) -> u32 {
        self.id
    }
    fn v(&self) -> u32 {
        self.v
    }
    fn set_v(&mut self, v: u32) {
        env::check_live(self.id, "TE::set_v");
        self.v = v;
    }
    fn h(&self) -> u64 {
        self.h
    }
}
/// One-byte element without drop glue; its hash is always plan 0 of its value.
#[derive(Clone, Copy)]
pub struct T1(pub u8);
impl ElemT for T1 {
    const TRACKED: bool = false;
    fn make(class: u32, _v: u32, _h: u64) -> Self {
        T1(class as u8)
    }
    fn class(&self) -> u32 {
        self.0 as u32
    }
    fn id(&self) -> u32 {
        0
    }
    fn v(&self) -> u32 {
        0
    }
    fn set_v(&mut self, _v: u32) {}
    fn h(&self) -> u64 {
        env::plan_hash(0, self.0 as u32)
    }
}
/// Zero-sized element: every element is class 0.
#[derive(Clone, Copy)]
pub struct T0;
impl ElemT for T0 {
    const TRACKED: bool = false;
    fn make(_class: u32, _v: u32, _h: u64) -> Self {
        T0
    }
    fn class(&self) -> u32 {
        0
    }
    fn id(&self) -> u32 {
        0
    }
    fn v(&self) -> u32 {
        0
    }
    fn set_v(&mut self, _v: u32) {}
    fn h(&self) -> u64 {
        env::plan_hash(0, 0)
    }
}

/// Zero-sized element with an alignment above 1: references to it must still be aligned (the bucket "pointer" of a
/// zero-sized type encodes an index, the element pointer is a dangling aligned address).
#[derive(Clone, Copy)]
#[repr(align(64))]
pub struct T0A;
impl ElemT for T0A {
    const TRACKED: bool = false;
    fn make(_class: u32, _v: u32, _h: u64) -> Self {
        T0A
    }
    fn class(&self) -> u32 {
        // touch the reference: its address must honour the alignment
        assert_eq!(self as *const T0A as usize % 64, 0, "misaligned reference to a zero-sized element");
        0
    }
    fn id(&self) -> u32 {
        0
    }
    fn v(&self) -> u32 {
        0
    }
    fn set_v(&mut self, _v: u32) {}
    fn h(&self) -> u64 {
        env::plan_hash(0, 0)
    }
}

pub type Table<E> = HashTable<E, CheckingAlloc>;

/// The caller-supplied hasher closure: returns the element's hash; counted and fault-injectable.
pub fn hasher_of<E: ElemT>(e: &E) -> u64 {
    // (an unlawful caller: the hasher closure answers differently on every call)
    let h = env::chaos_hash_answer().unwrap_or_else(|| e.h());
    let p = env::with(|en| {
        en.hash_calls += 1;
        en.panic_hash_at != 0 && en.hash_calls == en.panic_hash_at
    });
    if p {
        std::panic::panic_any(InjectedPanic("hash"));
    }
    h
}

pub struct TableDrv<E: ElemT> {
    pub tabs: Vec<Option<Table<E>>>,
    pub hold: Vec<Box<dyn Any>>,
    pub w: usize,
    /// never store two equal elements (which duplicate a lookup hits is layout-dependent)
    pub nodup: bool,
}

pub fn dump_table<E: ElemT>(m: &Option<Table<E>>, w: usize) -> TState {
    match m {
        None => TState::dead(w),
        Some(m) => {
            let d = m.verif_dump();
            let mut data = Vec::with_capacity(d.bucket_mask + 1);
            for i in 0..=d.bucket_mask {
                match m.verif_bucket(i) {
                    Some(e) => {
                        env::check_live(e.id(), "dump table element");
                        let h = e.h();
                        data.push([e.class() as i64, e.id() as i64, e.v() as i64, 0, env::hpos(h) as i64, env::htag(h) as i64]);
                    }
                    None => data.push([-1; 6]),
                }
            }
            TState {
                live: true,
                m: d.bucket_mask,
                it: d.items,
                g: d.growth_left,
                c: d.ctrl,
                d: data,
                len: m.len(),
                cap: m.capacity(),
                asz: m.allocation_size(),
                pl: 0,
            }
        }
    }
}

fn e3<E: ElemT>(e: &E) -> Vec<i64> {
    vec![e.class() as i64, e.id() as i64, e.v() as i64, 0]
}

impl<E: ElemT> TableDrv<E> {
    pub fn new(nt: usize, w: usize) -> Self {
        let mut tabs = Vec::new();
        for _ in 0..nt {
            tabs.push(None);
        }
        TableDrv { tabs, hold: Vec::new(), w, nodup: false }
    }

    pub fn states(&self) -> Vec<TState> {
        self.tabs.iter().map(|m| dump_table(m, self.w)).collect()
    }

    fn keep<T: 'static>(&mut self, x: T) {
        self.hold.push(Box::new(x));
    }

    pub fn exec(&mut self, mut ev: Event, tr: &mut Tracer) -> String {
        // a table lost to a faulted call (e.g. a destructor panic while it was being dropped) is re-created first
        if ev.op != "new" && ev.op != "with_capacity" && ev.op != "drop" {
            let mut need = vec![];
            if self.tabs[ev.t - 1].is_none() {
                need.push(ev.t);
            }
            if ev.u >= 1 && ev.u <= self.tabs.len() && ev.u != ev.t && self.tabs[ev.u - 1].is_none() {
                need.push(ev.u);
            }
            for t in need {
                let mut e2 = Event::new("new", t);
                e2.n = (t - 1).min(1) as i64;
                self.exec(e2, tr);
            }
        }
        tr.raw(&format!("{{\"op\":\"begin\",\"name\":\"{}\",\"t\":{},\"k\":{},\"n\":{}}}", ev.op, ev.t, ev.k, ev.n));
        tr.flush(); // the marker must survive a crash inside the call
        if self.nodup && E::TRACKED && (ev.op == "t_insert_unique") {
            let k = ev.k as u32;
            let present = self.tabs[ev.t - 1].as_ref().map_or(false, |m| m.iter().any(|e| e.class() == k));
            if present {
                ev.op = "t_find".into();
            }
        }
        if !E::TRACKED {
            ev.v = 0;
            // elements without identity: never store two indistinguishable elements (the abstract
            // content is a set of element tuples); duplicates are exercised with tracked elements
            if (ev.op == "t_insert_unique" || ev.op == "t_remove_reinsert") && std::mem::size_of::<E>() != 0 {
                let k = ev.k as u32;
                let h = env::plan_hash(0, k);
                if ev.op == "t_insert_unique" && self.tabs[ev.t - 1].as_ref().map_or(false, |m| m.find(h, |e| e.class() == k && e.h() == h).is_some()) {
                    ev.op = "t_find".into();
                }
            }
        }
        // reference for the shrink contract: what a fresh with_capacity(max(len, m)) holds (measured, not computed)
        if ev.op == "shrink_to" || ev.op == "t_shrink_to_fit" {
            if let Some(m) = self.tabs[ev.t - 1].as_ref() {
                let mm = if ev.op == "shrink_to" { ev.n.max(0) as usize } else { m.len() };
                let need = m.len().max(mm);
                let fresh = if need == 0 { 0 } else { HashTable::<E, CheckingAlloc>::with_capacity_in(need, CheckingAlloc).allocation_size() };
                ev.r = vec![fresh as i64];
            }
        }
        env::begin_window();
        env::arm(&ev.fa, ev.fk);
        let res = catch_unwind(AssertUnwindSafe(|| self.body(&mut ev)));
        if let Err(p) = res {
            if let Some(ip) = p.downcast_ref::<InjectedPanic>() {
                ev.pn = ip.0.to_string();
            } else if let Some(s) = p.downcast_ref::<&str>() {
                ev.pn = classify_panic(s);
            } else if let Some(s) = p.downcast_ref::<String>() {
                ev.pn = classify_panic(s);
            } else {
                ev.pn = "unknown".to_string();
            }
        }
        env::check_canaries();
        let st = self.states();
        tr.emit(&ev, &st);
        env::disarm();
        self.hold.clear();
        ev.pn.clone()
    }

    fn tab(&mut self, t: usize) -> &mut Table<E> {
        self.tabs[t - 1].as_mut().expect("table not live")
    }

    fn body(&mut self, ev: &mut Event) {
        let t = ev.t;
        let k = ev.k as u32;
        let vv = ev.v as u32;
        // the hash the caller supplies: plan `n` (0 or 1) of the class; untracked elements always use plan 0
        let hp = if E::TRACKED { (ev.n.max(0) as u8) & 1 } else { 0 };
        let h = if ev.k >= 0 { env::chaos_hash_answer().unwrap_or_else(|| env::plan_hash(hp, k)) } else { 0 };
        match ev.op.as_str() {
            "new" => {
                drop(self.tabs[t - 1].take());
                self.tabs[t - 1] = Some(HashTable::new_in(CheckingAlloc));
            }
            "with_capacity" => {
                drop(self.tabs[t - 1].take());
                self.tabs[t - 1] = Some(HashTable::with_capacity_in(ev.n as usize, CheckingAlloc));
            }
            "drop" => {
                drop(self.tabs[t - 1].take());
            }
            "t_insert_unique" => {
                let el = E::make(k, vv, h);
                ev.id = el.id() as i64;
                let o = self.tab(t).insert_unique(h, el, hasher_of::<E>);
                ev.r = vec![o.get().id() as i64];
            }
            "iter_default" => {
                use hashbrown::hash_table as ht;
                let mut good = 0i64;
                let mut total = 0i64;
                macro_rules! chk {
                    ($it:expr, $exact:expr) => {{
                        let mut it = $it;
                        total += 1;
                        let sh = if $exact { it.size_hint() == (0, Some(0)) } else { it.size_hint().0 == 0 };
                        let n1 = it.next().is_none();
                        let n2 = it.next().is_none();
                        let f = it.fold(0usize, |a, _| a + 1) == 0;
                        if sh && n1 && n2 && f {
                            good += 1;
                        }
                    }};
                }
                chk!(ht::Iter::<E>::default(), true);
                chk!(ht::Iter::<E>::default().clone(), true);
                chk!(ht::IterMut::<E>::default(), true);
                chk!(ht::IterHash::<E>::default(), false);
                chk!(ht::IterHashMut::<E>::default(), false);
                chk!(ht::IntoIter::<E, CheckingAlloc>::default(), true);
                ev.r = vec![good, total];
            }
            "t_find" => {
                ev.r = match self.tab(t).find(h, |e| env::eq_hook(e.class() == k && e.h() == h)) {
                    Some(e) => vec![e.id() as i64, e.v() as i64],
                    None => vec![-1, -1],
                };
            }
            "t_find_mut" => {
                ev.r = match self.tab(t).find_mut(h, |e| env::eq_hook(e.class() == k && e.h() == h)) {
                    Some(e) => {
                        e.set_v(vv);
                        vec![e.id() as i64, e.v() as i64]
                    }
                    None => vec![-1, -1],
                };
            }
            "t_entry_or_insert" | "t_entry_insert" | "t_entry_and_modify" | "t_entry_drop" => {
                let op = ev.op.clone();
                let m = self.tabs[t - 1].as_mut().unwrap();
                let e = m.entry(h, |e| env::eq_hook(e.class() == k && e.h() == h), hasher_of::<E>);
                let occ = matches!(e, Entry::Occupied(_));
                match op.as_str() {
                    "t_entry_or_insert" => {
                        let mut made = 0i64;
                        let o = e.or_insert_with(|| {
                            let el = E::make(k, vv, h);
                            made = el.id() as i64;
                            el
                        });
                        ev.r = vec![occ as i64, o.get().id() as i64, o.get().v() as i64];
                        ev.id = made;
                    }
                    "t_entry_insert" => {
                        let el = E::make(k, vv, h);
                        ev.id = el.id() as i64;
                        let o = e.insert(el);
                        ev.r = vec![occ as i64, o.get().id() as i64, o.get().v() as i64];
                    }
                    "t_entry_and_modify" => {
                        let e2 = e.and_modify(|x| x.set_v(vv));
                        ev.r = match e2 {
                            Entry::Occupied(o) => vec![1, o.get().id() as i64, o.get().v() as i64],
                            Entry::Vacant(_) => vec![0, -1, -1],
                        };
                    }
                    _ => {
                        ev.r = match e {
                            Entry::Occupied(o) => vec![1, o.get().id() as i64, o.get().v() as i64],
                            Entry::Vacant(_) => vec![0, -1, -1],
                        };
                    }
                }
            }
            "t_remove" => {
                let m = self.tabs[t - 1].as_mut().unwrap();
                let mut kept = None;
                ev.r = match m.find_entry(h, |e| env::eq_hook(e.class() == k && e.h() == h)) {
                    Ok(o) => {
                        let (old, _vac) = o.remove();
                        let r = vec![old.id() as i64, old.v() as i64];
                        kept = Some(old);
                        r
                    }
                    Err(_) => vec![-1, -1],
                };
                self.keep(kept);
            }
            "t_remove_reinsert" => {
                // OccupiedEntry::remove followed by re-insertion through the returned VacantEntry
                let m = self.tabs[t - 1].as_mut().unwrap();
                let mut kept = None;
                ev.r = match m.find_entry(h, |e| env::eq_hook(e.class() == k && e.h() == h)) {
                    Ok(o) => {
                        let (old, vac) = o.remove();
                        let el = E::make(k, vv, h);
                        ev.id = el.id() as i64;
                        let o2 = vac.insert(el);
                        let r = vec![old.id() as i64, o2.get().id() as i64];
                        kept = Some(old);
                        r
                    }
                    Err(_) => vec![-1, -1],
                };
                self.keep(kept);
            }
            "t_occ_get_mut" => {
                let m = self.tabs[t - 1].as_mut().unwrap();
                ev.r = match m.find_entry(h, |e| env::eq_hook(e.class() == k && e.h() == h)) {
                    Ok(mut o) => {
                        o.get_mut().set_v(vv);
                        let r = o.into_mut();
                        vec![r.id() as i64, r.v() as i64]
                    }
                    Err(_) => vec![-1, -1],
                };
            }
            "clear" => self.tab(t).clear(),
            "reserve" => self.tab(t).reserve(ev.n as usize, hasher_of::<E>),
            "try_reserve" => {
                let add = crate::mapdrv::decode_amount(ev.n, ev.j);
                ev.r = match self.tab(t).try_reserve(add, hasher_of::<E>) {
                    Ok(()) => vec![0, 0, 0],
                    Err(hashbrown::TryReserveError::CapacityOverflow) => vec![1, 0, 0],
                    Err(hashbrown::TryReserveError::AllocError { layout }) => {
                        vec![2, layout.size().min(i32::MAX as usize) as i64, layout.align() as i64]
                    }
                };
            }
            "shrink_to" => self.tab(t).shrink_to(ev.n as usize, hasher_of::<E>),
            "t_shrink_to_fit" => self.tab(t).shrink_to_fit(hasher_of::<E>),
            "retain" => {
                let keep: Vec<i64> = ev.ks.clone();
                let mut y = Vec::new();
                self.tab(t).retain(|e| {
                    y.push(e3(e));
                    if E::TRACKED {
                        let nv = e.v() + 1000;
                        e.set_v(nv);
                    }
                    keep.contains(&(e.class() as i64))
                });
                ev.y = y;
            }
            "t_extract_if" => {
                let sel: Vec<i64> = ev.ks.clone();
                let mut visited: Vec<i64> = Vec::new();
                let mut y = Vec::new();
                let mut kept: Vec<E> = vec![];
                {
                    let m = self.tabs[t - 1].as_mut().unwrap();
                    let mref: *const Table<E> = m;
                    let mut it = m.extract_if(|e| {
                        // visited buckets (identities may be untracked)
                        let idx = unsafe { (*mref).verif_index_of(e as *const E as *const u8) };
                        visited.push(idx.map(|x| x as i64).unwrap_or(-2));
                        if E::TRACKED {
                            let nv = e.v() + 1000;
                            e.set_v(nv);
                        }
                        sel.contains(&(e.class() as i64))
                    });
                    let mut cnt = 0;
                    while ev.j < 0 || cnt < ev.j {
                        match it.next() {
                            Some(x) => {
                                y.push(e3(&x));
                                kept.push(x);
                            }
                            None => break,
                        }
                        cnt += 1;
                    }
                }
                ev.y = y;
                ev.r = visited;
                self.keep(kept);
            }
            "drain" => {
                let mut y = Vec::new();
                let mut hints: Vec<i64> = Vec::new();
                let mut kept: Vec<E> = vec![];
                {
                    let m = self.tabs[t - 1].as_mut().unwrap();
                    let mut it = m.drain();
                    let mut cnt = 0;
                    loop {
                        let (lo, hi) = it.size_hint();
                        hints.push(lo as i64);
                        hints.push(hi.map(|x| x as i64).unwrap_or(-1));
                        hints.push(it.len() as i64);
                        if ev.j >= 0 && cnt >= ev.j {
                            break;
                        }
                        match it.next() {
                            Some(x) => {
                                y.push(e3(&x));
                                kept.push(x);
                            }
                            None => break,
                        }
                        cnt += 1;
                    }
                    if ev.n == 1 {
                        std::mem::forget(it);
                    } else if ev.n == 2 {
                        it.fold((), |_, x| {
                            y.push(e3(&x));
                            kept.push(x);
                        });
                    }
                }
                ev.y = y;
                ev.r = hints;
                self.keep(kept);
            }
            "iter" => {
                let m = self.tabs[t - 1].as_mut().unwrap();
                let mref: *const Table<E> = m;
                let idx = |p: &E| unsafe { (*mref).verif_index_of(p as *const E as *const u8).map(|x| x as i64).unwrap_or(-2) };
                let mut y: Vec<Vec<i64>> = Vec::new();
                let mut r: Vec<i64> = Vec::new();
                let clone_at = ev.u as i64;
                let kind = ev.n;
                macro_rules! walk {
                    ($itn:ident, $it:expr, $clone:expr) => {{
                        let mut $itn = $it;
                        let mut cnt: i64 = 0;
                        let mut fused = 0;
                        loop {
                            let (lo, hi) = $itn.size_hint();
                            r.push(lo as i64);
                            r.push(hi.map(|x| x as i64).unwrap_or(-1));
                            r.push($itn.len() as i64);
                            if clone_at == cnt {
                                if let Some(c) = $clone {
                                    let mut cy = vec![-7];
                                    for x in c {
                                        cy.push(idx(x));
                                    }
                                    y.push(cy);
                                }
                            }
                            if ev.j >= 0 && cnt >= ev.j {
                                let mut rest = Vec::new();
                                $itn.fold((), |(), x| rest.push(vec![idx(&*x), x.class() as i64, x.id() as i64, x.v() as i64, 0]));
                                y.push(vec![-9]);
                                y.extend(rest);
                                break;
                            }
                            match $itn.next() {
                                Some(x) => y.push(vec![idx(&*x), x.class() as i64, x.id() as i64, x.v() as i64, 0]),
                                None => {
                                    fused += 1;
                                    if fused >= 3 {
                                        break;
                                    }
                                    continue;
                                }
                            }
                            cnt += 1;
                        }
                    }};
                }
                if kind == 0 {
                    walk!(itx, m.iter(), Some(itx.clone()));
                } else {
                    walk!(itx, m.iter_mut(), None::<hashbrown::hash_table::Iter<'_, E>>);
                }
                ev.y = y;
                ev.r = r;
                ev.u = 0;
                ev.n = 0;
            }
            "t_iter_hash" => {
                let m = self.tabs[t - 1].as_mut().unwrap();
                let mref: *const Table<E> = m;
                let idx = |p: &E| unsafe { (*mref).verif_index_of(p as *const E as *const u8).map(|x| x as i64).unwrap_or(-2) };
                let mut y = Vec::new();
                if ev.j == 0 {
                    let mut it = m.iter_hash(h);
                    for x in &mut it {
                        y.push(vec![idx(x), x.class() as i64, x.id() as i64]);
                    }
                    if it.next().is_some() {
                        y.push(vec![-99, -99, -99]);
                    }
                } else {
                    for x in m.iter_hash_mut(h) {
                        y.push(vec![idx(&*x), x.class() as i64, x.id() as i64]);
                    }
                }
                ev.y = y;
            }
            "into_iter" => {
                let m = self.tabs[t - 1].take().unwrap();
                let mut y = Vec::new();
                let mut hints = Vec::new();
                let mut kept: Vec<E> = vec![];
                {
                    let mut it = m.into_iter();
                    let mut cnt = 0;
                    loop {
                        let (lo, hi) = it.size_hint();
                        hints.push(lo as i64);
                        hints.push(hi.map(|x| x as i64).unwrap_or(-1));
                        hints.push(it.len() as i64);
                        if ev.j >= 0 && cnt >= ev.j {
                            break;
                        }
                        match it.next() {
                            Some(x) => {
                                y.push(e3(&x));
                                kept.push(x);
                            }
                            None => break,
                        }
                        cnt += 1;
                    }
                }
                ev.y = y;
                ev.r = hints;
                ev.n = 0;
                self.keep(kept);
                self.tabs[t - 1] = Some(HashTable::new_in(CheckingAlloc));
            }
            "clone" => {
                let c = self.tabs[t - 1].as_ref().unwrap().clone();
                drop(self.tabs[ev.u - 1].take());
                self.tabs[ev.u - 1] = Some(c);
            }
            "clone_from" => {
                let src = self.tabs[ev.u - 1].take().unwrap();
                let r = catch_unwind(AssertUnwindSafe(|| self.tabs[t - 1].as_mut().unwrap().clone_from(&src)));
                self.tabs[ev.u - 1] = Some(src);
                if let Err(p) = r {
                    std::panic::resume_unwind(p);
                }
            }
            "t_get_many_mut" => {
                // ks = requested classes; j = 1: sloppy closures that also accept class+1 (may match several entries)
                let classes: Vec<u32> = ev.ks.iter().map(|c| *c as u32).collect();
                let hashes: Vec<u64> = classes.iter().map(|c| env::plan_hash(0, *c)).collect();
                let sloppy = ev.j == 1;
                let m = self.tabs[t - 1].as_mut().unwrap();
                let mut r: Vec<i64> = Vec::new();
                let mut addrs: Vec<usize> = Vec::new();
                let mut ids: Vec<i64> = Vec::new();
                macro_rules! gm {
                    ($n:expr) => {{
                        let mut hs = [0u64; $n];
                        hs.copy_from_slice(&hashes[..$n]);
                        let res: [Option<&mut E>; $n] =
                            m.get_many_mut(hs, |i, e| env::eq_hook((e.class() == classes[i] && e.h() == hashes[i]) || (sloppy && e.class() == classes[i] + 1)));
                        for (i, o) in res.into_iter().enumerate() {
                            match o {
                                Some(e) => {
                                    e.set_v(vv + i as u32);
                                    addrs.push(e as *mut E as usize);
                                    ids.push(e.class() as i64);
                                    r.push(1);
                                }
                                None => {
                                    addrs.push(0);
                                    ids.push(-1);
                                    r.push(0);
                                }
                            }
                        }
                    }};
                }
                match classes.len() {
                    0 => gm!(0),
                    1 => gm!(1),
                    2 => gm!(2),
                    3 => gm!(3),
                    _ => gm!(4),
                }
                for a in addrs {
                    r.push(if a == 0 { -1 } else { m.verif_index_of(a as *const u8).map(|x| x as i64).unwrap_or(-2) });
                }
                r.extend(ids);
                ev.r = r;
            }
            "par_iter" => {
                // n: 0 par_iter, 1 par_iter_mut; j = thread-pool size
                use rayon::prelude::*;
                let m = self.tabs[t - 1].as_mut().unwrap();
                let pool = rayon::ThreadPoolBuilder::new().num_threads(ev.j.max(1) as usize).build().unwrap();
                ev.y = if ev.n == 0 {
                    pool.install(|| m.par_iter().map(|e| e3(e)).collect::<Vec<_>>())
                } else {
                    pool.install(|| m.par_iter_mut().map(|e| e3(&*e)).collect::<Vec<_>>())
                };
                ev.n = 0;
            }
            "par_drain" | "into_par_iter" => {
                if ev.n == 2 {
                    ev.n = 1; // (the panicking-consumer variant is exercised on maps)
                }
                // n: 0 = consume everything, 1 = short-circuiting consumer (find_any class k); j = thread-pool size
                use rayon::prelude::*;
                let pool = rayon::ThreadPoolBuilder::new().num_threads(ev.j.max(1) as usize).build().unwrap();
                let into = ev.op == "into_par_iter";
                let mut owned = if into { self.tabs[t - 1].take() } else { None };
                let mut kept: Vec<E> = vec![];
                if ev.n == 0 {
                    kept = if into {
                        let m = owned.take().unwrap();
                        pool.install(|| m.into_par_iter().collect::<Vec<E>>())
                    } else {
                        let m = self.tabs[t - 1].as_mut().unwrap();
                        pool.install(|| m.par_drain().collect::<Vec<E>>())
                    };
                    ev.y = kept.iter().map(|e| e3(e)).collect();
                    ev.r = vec![kept.len() as i64];
                } else {
                    let found = if into {
                        let m = owned.take().unwrap();
                        pool.install(|| m.into_par_iter().find_any(|e| e.class() == k))
                    } else {
                        let m = self.tabs[t - 1].as_mut().unwrap();
                        pool.install(|| m.par_drain().find_any(|e| e.class() == k))
                    };
                    ev.r = vec![found.as_ref().map_or(-1, |e| e.id() as i64)];
                    ev.y = found.iter().map(|e| e3(e)).collect();
                    kept.extend(found);
                }
                self.keep(kept);
                if into {
                    self.tabs[t - 1] = Some(HashTable::new_in(CheckingAlloc));
                }
            }
            other => panic!("unknown table op {}", other),
        }
    }
}
