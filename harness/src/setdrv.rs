//! HashSet operation executor (two operand sets + one result set).

use crate::env::{self, CheckingAlloc, InjectedPanic, KeyT, PlanBH};
use crate::mapdrv::classify_panic;
use crate::trace::{Event, TState, Tracer};
use hashbrown::hash_set::Entry;
use hashbrown::HashSet;
use std::any::Any;
use std::panic::{catch_unwind, AssertUnwindSafe};

pub type Set<K> = HashSet<K, PlanBH, CheckingAlloc>;

thread_local! {
    static MADE: std::cell::Cell<i64> = const { std::cell::Cell::new(0) };
}

pub struct SetDrv<K: KeyT> {
    pub tabs: Vec<Option<Set<K>>>,
    pub hold: Vec<Box<dyn Any>>,
    pub w: usize,
}

pub fn dump_set<K: KeyT>(m: &Option<Set<K>>, w: usize) -> TState {
    match m {
        None => TState::dead(w),
        Some(m) => {
            let d = m.verif_dump();
            let pl = m.hasher().pl;
            let mut data = Vec::with_capacity(d.bucket_mask + 1);
            for i in 0..=d.bucket_mask {
                match m.verif_bucket(i) {
                    Some(k) => {
                        env::check_live(k.id(), "dump set element");
                        let h = env::plan_hash(pl, k.class());
                        data.push([k.class() as i64, k.id() as i64, 0, 0, env::hpos(h) as i64, env::htag(h) as i64]);
                    }
                    None => data.push([-1; 6]),
                }
            }
            TState {
                live: true,
                m: d.bucket_mask,
                it: d.items,
                g: d.growth_left,
                c: d.ctrl,
                d: data,
                len: m.len(),
                cap: m.capacity(),
                asz: m.allocation_size(),
                pl,
            }
        }
    }
}

fn hint2<I: Iterator>(it: &I, r: &mut Vec<i64>) {
    let (lo, hi) = it.size_hint();
    r.push(lo as i64);
    r.push(hi.map(|x| x as i64).unwrap_or(-1));
}

impl<K: KeyT> SetDrv<K>
where
    for<'a> K: From<&'a K::Q>,
{
    pub fn new(nt: usize, w: usize) -> Self {
        let mut tabs = Vec::new();
        for _ in 0..nt {
            tabs.push(None);
        }
        SetDrv { tabs, hold: Vec::new(), w }
    }

    pub fn states(&self) -> Vec<TState> {
        self.tabs.iter().map(|m| dump_set(m, self.w)).collect()
    }

    fn keep<T: 'static>(&mut self, x: T) {
        self.hold.push(Box::new(x));
    }

    pub fn exec(&mut self, mut ev: Event, tr: &mut Tracer) -> String {
        // a table lost to a faulted call (e.g. a destructor panic while it was being dropped) is re-created first
        if ev.op != "new" && ev.op != "with_capacity" && ev.op != "drop" {
            let mut need = vec![];
            if self.tabs[ev.t - 1].is_none() {
                need.push(ev.t);
            }
            if ev.u >= 1 && ev.u <= self.tabs.len() && ev.u != ev.t && self.tabs[ev.u - 1].is_none() {
                need.push(ev.u);
            }
            for t in need {
                let mut e2 = Event::new("new", t);
                e2.n = (t - 1).min(1) as i64;
                self.exec(e2, tr);
            }
        }
        tr.raw(&format!("{{\"op\":\"begin\",\"name\":\"{}\",\"t\":{},\"k\":{},\"n\":{}}}", ev.op, ev.t, ev.k, ev.n));
        tr.flush(); // the marker must survive a crash inside the call
        ev.v = 0;
        // reference for the shrink contract: what a fresh with_capacity(max(len, m)) holds (measured, not computed)
        if ev.op == "shrink_to" || ev.op == "shrink_to_fit" {
            if let Some(m) = self.tabs[ev.t - 1].as_ref() {
                let mm = if ev.op == "shrink_to" { ev.n.max(0) as usize } else { 0 };
                let need = m.len().max(mm);
                let fresh = if need == 0 { 0 } else { HashSet::<K, PlanBH, CheckingAlloc>::with_capacity_and_hasher_in(need, PlanBH { pl: 0 }, CheckingAlloc).allocation_size() };
                ev.r = vec![fresh as i64];
            }
        }
        env::begin_window();
        env::arm(&ev.fa, ev.fk);
        let res = catch_unwind(AssertUnwindSafe(|| self.body(&mut ev)));
        if let Err(p) = res {
            if let Some(ip) = p.downcast_ref::<InjectedPanic>() {
                ev.pn = ip.0.to_string();
            } else if let Some(s) = p.downcast_ref::<&str>() {
                ev.pn = classify_panic(s);
            } else if let Some(s) = p.downcast_ref::<String>() {
                ev.pn = classify_panic(s);
            } else {
                ev.pn = "unknown".to_string();
            }
        }
        if ev.op == "get_or_insert_with" {
            ev.id = MADE.with(|c| c.get());
        }
        env::check_canaries();
        let st = self.states();
        tr.emit(&ev, &st);
        env::disarm();
        self.hold.clear();
        ev.pn.clone()
    }

    fn tab(&mut self, t: usize) -> &mut Set<K> {
        self.tabs[t - 1].as_mut().expect("set not live")
    }

    fn body(&mut self, ev: &mut Event) {
        let t = ev.t;
        let k = ev.k as u32;
        match ev.op.as_str() {
            "new" => {
                drop(self.tabs[t - 1].take());
                self.tabs[t - 1] = Some(HashSet::with_hasher_in(PlanBH { pl: ev.n as u8 }, CheckingAlloc));
            }
            "with_capacity" => {
                drop(self.tabs[t - 1].take());
                self.tabs[t - 1] =
                    Some(HashSet::with_capacity_and_hasher_in(ev.n as usize, PlanBH { pl: ev.j as u8 }, CheckingAlloc));
            }
            "drop" => {
                drop(self.tabs[t - 1].take());
            }
            "insert" => {
                let key = K::make(k);
                ev.id = key.id() as i64;
                ev.r = vec![self.tab(t).insert(key) as i64];
            }
            "replace" => {
                let key = K::make(k);
                ev.id = key.id() as i64;
                let old = self.tab(t).replace(key);
                ev.r = vec![old.as_ref().map_or(-1, |o| o.id() as i64)];
                self.keep(old);
            }
            "take" => {
                let old = self.tab(t).take(&K::q(k));
                ev.r = vec![old.as_ref().map_or(-1, |o| o.id() as i64)];
                self.keep(old);
            }
            "get" => {
                ev.r = vec![self.tab(t).get(&K::q(k)).map_or(-1, |o| o.id() as i64)];
            }
            "contains" => {
                ev.r = vec![self.tab(t).contains(&K::q(k)) as i64];
            }
            "iter_default" => {
                use hashbrown::hash_set as hs;
                let mut good = 0i64;
                let mut total = 0i64;
                macro_rules! chk {
                    ($it:expr) => {{
                        let mut it = $it;
                        total += 1;
                        let sh = it.size_hint() == (0, Some(0));
                        let ln = it.len() == 0;
                        let n1 = it.next().is_none();
                        let n2 = it.next().is_none();
                        let f = it.fold(0usize, |a, _| a + 1) == 0;
                        if sh && ln && n1 && n2 && f {
                            good += 1;
                        }
                    }};
                }
                chk!(hs::Iter::<K>::default());
                chk!(hs::Iter::<K>::default().clone());
                chk!(hs::IntoIter::<K, CheckingAlloc>::default());
                ev.r = vec![good, total];
            }
            "remove" => {
                ev.r = vec![self.tab(t).remove(&K::q(k)) as i64];
            }
            "get_or_insert" => {
                let key = K::make(k);
                ev.id = key.id() as i64;
                ev.r = vec![self.tab(t).get_or_insert(key).id() as i64];
            }
            "get_or_insert_with" => {
                // n = class of the value the closure produces (may differ from k: must panic then)
                let q = K::q(k);
                MADE.with(|c| c.set(0));
                let prod = ev.n as u32;
                let m = self.tabs[t - 1].as_mut().unwrap();
                let r = m.get_or_insert_with(&q, |_q| {
                    let key = K::make(prod);
                    MADE.with(|c| c.set(key.id() as i64));
                    key
                });
                ev.r = vec![r.id() as i64];
            }
            "s_entry_insert" | "s_entry_or_insert" | "s_entry_remove" | "s_entry_get" | "s_entry_into_value" => {
                let key = K::make(k);
                ev.id = key.id() as i64;
                let op = ev.op.clone();
                let m = self.tabs[t - 1].as_mut().unwrap();
                let e = m.entry(key);
                let occ = matches!(e, Entry::Occupied(_));
                let mut kept: Vec<Box<dyn Any>> = vec![];
                match (op.as_str(), e) {
                    ("s_entry_insert", e) => {
                        let o = e.insert();
                        ev.r = vec![occ as i64, o.get().id() as i64];
                    }
                    ("s_entry_or_insert", e) => {
                        e.or_insert();
                        ev.r = vec![occ as i64, -1];
                    }
                    ("s_entry_remove", Entry::Occupied(o)) => {
                        let old = o.remove();
                        ev.r = vec![1, old.id() as i64];
                        kept.push(Box::new(old));
                    }
                    ("s_entry_into_value", Entry::Vacant(v)) => {
                        let val = v.into_value();
                        ev.r = vec![0, val.id() as i64];
                        kept.push(Box::new(val));
                    }
                    (_, e) => {
                        ev.r = vec![occ as i64, e.get().id() as i64];
                    }
                }
                self.hold.extend(kept);
            }
            "extend" => {
                let mut items = Vec::new();
                let mut y = Vec::new();
                for c in ev.ks.iter() {
                    let key = K::make(*c as u32);
                    y.push(vec![key.class() as i64, key.id() as i64, 0, 0]);
                    items.push(key);
                }
                ev.y = y;
                self.tab(t).extend(items);
            }
            "from_iter" => {
                let mut items = Vec::new();
                let mut y = Vec::new();
                for c in ev.ks.iter() {
                    let key = K::make(*c as u32);
                    y.push(vec![key.class() as i64, key.id() as i64, 0, 0]);
                    items.push(key);
                }
                ev.y = y;
                let m: HashSet<K, PlanBH, CheckingAlloc> = items.into_iter().collect();
                drop(self.tabs[t - 1].replace(m));
            }
            "clear" => self.tab(t).clear(),
            "reserve" => self.tab(t).reserve(ev.n as usize),
            "shrink_to" => self.tab(t).shrink_to(ev.n as usize),
            "shrink_to_fit" => self.tab(t).shrink_to_fit(),
            "try_reserve" => {
                let add = crate::mapdrv::decode_amount(ev.n, ev.j);
                ev.r = match self.tab(t).try_reserve(add) {
                    Ok(()) => vec![0, 0, 0],
                    Err(hashbrown::TryReserveError::CapacityOverflow) => vec![1, 0, 0],
                    Err(hashbrown::TryReserveError::AllocError { layout }) => {
                        vec![2, layout.size().min(i32::MAX as usize) as i64, layout.align() as i64]
                    }
                };
            }
            "retain" => {
                let keep: Vec<i64> = ev.ks.clone();
                let mut y = Vec::new();
                self.tab(t).retain(|kk| {
                    y.push(vec![kk.class() as i64, kk.id() as i64, 0, 0]);
                    keep.contains(&(kk.class() as i64))
                });
                ev.y = y;
            }
            "extract_if" => {
                let sel: Vec<i64> = ev.ks.clone();
                let mut visited: Vec<i64> = Vec::new();
                let mut y = Vec::new();
                let mut kept: Vec<K> = vec![];
                {
                    let m = self.tabs[t - 1].as_mut().unwrap();
                    let mut it = m.extract_if(|kk| {
                        visited.push(kk.class() as i64);
                        sel.contains(&(kk.class() as i64))
                    });
                    let mut cnt = 0;
                    while ev.j < 0 || cnt < ev.j {
                        match it.next() {
                            Some(ok) => {
                                y.push(vec![ok.class() as i64, ok.id() as i64, 0, 0]);
                                kept.push(ok);
                            }
                            None => break,
                        }
                        cnt += 1;
                    }
                }
                ev.y = y;
                ev.r = visited;
                self.keep(kept);
            }
            "drain" => {
                let mut y = Vec::new();
                let mut hints: Vec<i64> = Vec::new();
                let mut kept: Vec<K> = vec![];
                {
                    let m = self.tabs[t - 1].as_mut().unwrap();
                    let mut it = m.drain();
                    let mut cnt = 0;
                    loop {
                        let (lo, hi) = it.size_hint();
                        hints.push(lo as i64);
                        hints.push(hi.map(|x| x as i64).unwrap_or(-1));
                        hints.push(it.len() as i64);
                        if ev.j >= 0 && cnt >= ev.j {
                            break;
                        }
                        match it.next() {
                            Some(ok) => {
                                y.push(vec![ok.class() as i64, ok.id() as i64, 0, 0]);
                                kept.push(ok);
                            }
                            None => break,
                        }
                        cnt += 1;
                    }
                    if ev.n == 1 {
                        std::mem::forget(it);
                    } else if ev.n == 2 {
                        it.fold((), |_, ok| {
                            y.push(vec![ok.class() as i64, ok.id() as i64, 0, 0]);
                            kept.push(ok);
                        });
                    }
                }
                ev.y = y;
                ev.r = hints;
                self.keep(kept);
            }
            "iter" => {
                let m = self.tabs[t - 1].as_ref().unwrap();
                let mut y: Vec<Vec<i64>> = Vec::new();
                let mut r: Vec<i64> = Vec::new();
                let idx = |p: &K| m.verif_index_of(p as *const K as *const u8).map(|x| x as i64).unwrap_or(-2);
                let mut it = m.iter();
                let mut cnt: i64 = 0;
                let mut fused = 0;
                let clone_at = ev.u as i64;
                loop {
                    let (lo, hi) = it.size_hint();
                    r.push(lo as i64);
                    r.push(hi.map(|x| x as i64).unwrap_or(-1));
                    r.push(it.len() as i64);
                    if clone_at == cnt {
                        let mut cy = vec![-7];
                        for x in it.clone() {
                            cy.push(idx(x));
                        }
                        y.push(cy);
                    }
                    if ev.j >= 0 && cnt >= ev.j {
                        let mut rest = Vec::new();
                        it.fold((), |(), x| rest.push(vec![idx(x), x.class() as i64, x.id() as i64, 0, 0]));
                        y.push(vec![-9]);
                        y.extend(rest);
                        break;
                    }
                    match it.next() {
                        Some(x) => y.push(vec![idx(x), x.class() as i64, x.id() as i64, 0, 0]),
                        None => {
                            fused += 1;
                            if fused >= 3 {
                                break;
                            }
                            continue;
                        }
                    }
                    cnt += 1;
                }
                ev.y = y;
                ev.r = r;
                ev.u = 0;
                ev.n = 0;
            }
            "into_iter" => {
                let m = self.tabs[t - 1].take().unwrap();
                let pl = m.hasher().pl;
                let mut y = Vec::new();
                let mut hints = Vec::new();
                let mut kept: Vec<K> = vec![];
                {
                    let mut it = m.into_iter();
                    let mut cnt = 0;
                    loop {
                        let (lo, hi) = it.size_hint();
                        hints.push(lo as i64);
                        hints.push(hi.map(|x| x as i64).unwrap_or(-1));
                        hints.push(it.len() as i64);
                        if ev.j >= 0 && cnt >= ev.j {
                            break;
                        }
                        match it.next() {
                            Some(x) => {
                                y.push(vec![x.class() as i64, x.id() as i64, 0, 0]);
                                kept.push(x);
                            }
                            None => break,
                        }
                        cnt += 1;
                    }
                }
                ev.y = y;
                ev.r = hints;
                ev.n = 0;
                self.keep(kept);
                self.tabs[t - 1] = Some(HashSet::with_hasher_in(PlanBH { pl }, CheckingAlloc));
            }
            "clone" => {
                let c = self.tabs[t - 1].as_ref().unwrap().clone();
                drop(self.tabs[ev.u - 1].take());
                self.tabs[ev.u - 1] = Some(c);
            }
            "clone_from" => {
                let src = self.tabs[ev.u - 1].take().unwrap();
                let r = catch_unwind(AssertUnwindSafe(|| self.tabs[t - 1].as_mut().unwrap().clone_from(&src)));
                self.tabs[ev.u - 1] = Some(src);
                if let Err(p) = r {
                    std::panic::resume_unwind(p);
                }
            }
            "eq" => {
                let a = self.tabs[t - 1].as_ref().unwrap();
                let b = self.tabs[ev.u - 1].as_ref().unwrap();
                ev.r = vec![(a == b) as i64, (b == a) as i64];
            }
            "is_subset" | "is_superset" | "is_disjoint" => {
                let a = self.tabs[t - 1].as_ref().unwrap();
                let b = self.tabs[ev.u - 1].as_ref().unwrap();
                ev.r = vec![match ev.op.as_str() {
                    "is_subset" => a.is_subset(b),
                    "is_superset" => a.is_superset(b),
                    _ => a.is_disjoint(b),
                } as i64];
            }
            "union" | "intersection" | "difference" | "symmetric_difference" => {
                let a = self.tabs[t - 1].as_ref().unwrap();
                let b = self.tabs[ev.u - 1].as_ref().unwrap();
                let mut y = Vec::new();
                let mut r = Vec::new();
                macro_rules! run {
                    ($it:expr) => {{
                        let mut it = $it;
                        loop {
                            hint2(&it, &mut r);
                            match it.next() {
                                Some(x) => y.push(vec![x.class() as i64, x.id() as i64]),
                                None => break,
                            }
                        }
                        // fused: keeps returning None
                        if it.next().is_some() {
                            y.push(vec![-99, -99]);
                        }
                    }};
                }
                match ev.op.as_str() {
                    "union" => run!(a.union(b)),
                    "intersection" => run!(a.intersection(b)),
                    "difference" => run!(a.difference(b)),
                    _ => run!(a.symmetric_difference(b)),
                }
                ev.y = y;
                ev.r = r;
            }
            "op_or" | "op_and" | "op_xor" | "op_sub" => {
                // table 3 := a OP b
                let res = {
                    let a = self.tabs[t - 1].as_ref().unwrap();
                    let b = self.tabs[ev.u - 1].as_ref().unwrap();
                    match ev.op.as_str() {
                        "op_or" => a | b,
                        "op_and" => a & b,
                        "op_xor" => a ^ b,
                        _ => a - b,
                    }
                };
                drop(self.tabs[2].take());
                self.tabs[2] = Some(res);
            }
            "or_assign" | "and_assign" | "xor_assign" | "sub_assign" => {
                let src = self.tabs[ev.u - 1].take().unwrap();
                let op = ev.op.clone();
                let r = catch_unwind(AssertUnwindSafe(|| {
                    let a = self.tabs[t - 1].as_mut().unwrap();
                    match op.as_str() {
                        "or_assign" => *a |= &src,
                        "and_assign" => *a &= &src,
                        "xor_assign" => *a ^= &src,
                        _ => *a -= &src,
                    }
                }));
                self.tabs[ev.u - 1] = Some(src);
                if let Err(p) = r {
                    std::panic::resume_unwind(p);
                }
            }
            "par_iter" => {
                use rayon::prelude::*;
                let m = self.tabs[t - 1].as_ref().unwrap();
                let pool = rayon::ThreadPoolBuilder::new().num_threads(ev.j.max(1) as usize).build().unwrap();
                ev.y = pool.install(|| m.par_iter().map(|x| vec![x.class() as i64, x.id() as i64, 0, 0]).collect::<Vec<_>>());
                ev.n = 0;
            }
            "par_drain" | "into_par_iter" => {
                if ev.n == 2 {
                    ev.n = 1; // (the panicking-consumer variant is exercised on maps)
                }
                use rayon::prelude::*;
                let pool = rayon::ThreadPoolBuilder::new().num_threads(ev.j.max(1) as usize).build().unwrap();
                let into = ev.op == "into_par_iter";
                let mut owned = if into { self.tabs[t - 1].take() } else { None };
                let pl = owned.as_ref().map(|m| m.hasher().pl).unwrap_or(0);
                let mut kept: Vec<K> = vec![];
                if ev.n == 0 {
                    kept = if into {
                        let m = owned.take().unwrap();
                        pool.install(|| m.into_par_iter().collect::<Vec<K>>())
                    } else {
                        let m = self.tabs[t - 1].as_mut().unwrap();
                        pool.install(|| m.par_drain().collect::<Vec<K>>())
                    };
                    ev.y = kept.iter().map(|x| vec![x.class() as i64, x.id() as i64, 0, 0]).collect();
                    ev.r = vec![kept.len() as i64];
                } else {
                    let found = if into {
                        let m = owned.take().unwrap();
                        pool.install(|| m.into_par_iter().find_any(|x| x.class() == k))
                    } else {
                        let m = self.tabs[t - 1].as_mut().unwrap();
                        pool.install(|| m.par_drain().find_any(|x| x.class() == k))
                    };
                    ev.r = vec![found.as_ref().map_or(-1, |x| x.id() as i64)];
                    ev.y = found.iter().map(|x| vec![x.class() as i64, x.id() as i64, 0, 0]).collect();
                    kept.extend(found);
                }
                self.keep(kept);
                if into {
                    self.tabs[t - 1] = Some(HashSet::with_hasher_in(PlanBH { pl }, CheckingAlloc));
                }
            }
            "par_union" | "par_intersection" | "par_difference" | "par_symmetric_difference" => {
                use rayon::prelude::*;
                let a = self.tabs[t - 1].as_ref().unwrap();
                let b = self.tabs[ev.u - 1].as_ref().unwrap();
                let pool = rayon::ThreadPoolBuilder::new().num_threads(ev.j.max(1) as usize).build().unwrap();
                let f = |x: &K| vec![x.class() as i64, x.id() as i64];
                ev.y = match ev.op.as_str() {
                    "par_union" => pool.install(|| a.par_union(b).map(f).collect::<Vec<_>>()),
                    "par_intersection" => pool.install(|| a.par_intersection(b).map(f).collect::<Vec<_>>()),
                    "par_difference" => pool.install(|| a.par_difference(b).map(f).collect::<Vec<_>>()),
                    _ => pool.install(|| a.par_symmetric_difference(b).map(f).collect::<Vec<_>>()),
                };
            }
            "par_is_subset" | "par_is_superset" | "par_is_disjoint" | "par_eq" => {
                let a = self.tabs[t - 1].as_ref().unwrap();
                let b = self.tabs[ev.u - 1].as_ref().unwrap();
                let pool = rayon::ThreadPoolBuilder::new().num_threads(ev.j.max(1) as usize).build().unwrap();
                ev.r = vec![pool.install(|| match ev.op.as_str() {
                    "par_is_subset" => a.par_is_subset(b),
                    "par_is_superset" => a.par_is_superset(b),
                    "par_is_disjoint" => a.par_is_disjoint(b),
                    _ => a.par_eq(b),
                }) as i64];
            }
            "serde_roundtrip" => {
                let val = serde_json::to_value(self.tabs[t - 1].as_ref().unwrap()).expect("serialize");
                let back: Set<K> = serde_json::from_value(val).expect("deserialize");
                drop(self.tabs[ev.u - 1].take());
                self.tabs[ev.u - 1] = Some(back);
            }
            "serde_de" | "serde_de_in_place" => {
                let items: Vec<(u32, u32)> = ev.ks.iter().map(|c| (*c as u32, 0)).collect();
                let hint = match ev.n {
                    -1 => None,
                    -2 => Some(usize::MAX),
                    -3 => Some(1usize << 40),
                    x => Some(x as usize),
                };
                let input = env::MockInput { items, pos: 0, hint, fail_at: if ev.j >= 0 { Some(ev.j as usize) } else { None }, pending_value: None };
                if ev.op == "serde_de" {
                    let res: Result<Set<K>, _> = serde::Deserialize::deserialize(env::MockDe(input, false));
                    let maxal = env::with(|e| e.alloc_events.iter().filter(|a| a.0 == 1).map(|a| a.1).max().unwrap_or(0));
                    match res {
                        Ok(mut m) => {
                            ev.r = vec![1, m.capacity() as i64, maxal as i64];
                            m.shrink_to_fit();
                            drop(self.tabs[t - 1].take());
                            self.tabs[t - 1] = Some(m);
                        }
                        Err(_) => ev.r = vec![0, 0, maxal as i64],
                    }
                } else {
                    let m = self.tabs[t - 1].as_mut().unwrap();
                    let res = serde::Deserialize::deserialize_in_place(env::MockDe(input, false), m);
                    let maxal = env::with(|e| e.alloc_events.iter().filter(|a| a.0 == 1).map(|a| a.1).max().unwrap_or(0));
                    ev.r = vec![res.is_ok() as i64, m.capacity() as i64, maxal as i64];
                    m.shrink_to_fit();
                }
            }
            other => panic!("unknown set op {}", other),
        }
    }
}
