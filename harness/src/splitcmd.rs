//! `hbv split`: applies `RawIterRange::split` along caller-chosen decision trees on real tables (hook
//! `verif_split_leaves`) and records the bucket indices each leaf yields, for validation against spec/HbSplit.tla.

use crate::env::{self, CheckingAlloc, PlanBH};
use crate::scen::make_plan;
use hashbrown::HashMap;
use rand::rngs::SmallRng;
use rand::{Rng, SeedableRng};
use std::io::Write;

pub fn run(out: &str, seed: u64, args: &[String]) -> i32 {
    let ntables: usize = args.first().and_then(|s| s.parse().ok()).unwrap_or(40);
    let ndec: usize = args.get(1).and_then(|s| s.parse().ok()).unwrap_or(12);
    let mut f: Box<dyn Write> = if out == "-" {
        Box::new(std::io::BufWriter::new(std::io::stdout()))
    } else {
        Box::new(std::io::BufWriter::new(std::fs::File::create(out).unwrap()))
    };
    let mut rng = SmallRng::seed_from_u64(seed ^ 0x5917);
    env::reset_all();
    for ti in 0..ntables {
        let nkeys: u32 = [3u32, 6, 12, 24, 48, 100, 200][rng.random_range(0..7)];
        let fam = ["collide", "mixed", "zero", "fewpos", "seq"][rng.random_range(0..5)];
        let plan = make_plan(fam, nkeys, &mut rng);
        env::with(|e| e.plans = vec![plan.clone(), plan]);
        let mut m: HashMap<u32, u32, PlanBH, CheckingAlloc> = HashMap::with_hasher_in(PlanBH { pl: 0 }, CheckingAlloc);
        // random history so that the table holds tombstones and gaps
        let steps = rng.random_range(0..(4 * nkeys as usize + 2));
        for _ in 0..steps {
            let k = rng.random_range(0..nkeys);
            if rng.random_range(0..3) < 2 {
                m.insert(k, k);
            } else {
                m.remove(&k);
            }
        }
        let d = m.verif_dump();
        let buckets = d.bucket_mask + 1;
        for di in 0..ndec {
            // decision lists: all-leaf, full binary splitting, and random mixtures with partial consumption
            let len = rng.random_range(0..24);
            let dec: Vec<u8> = match di {
                0 => vec![0],
                1 => vec![1; 64],
                _ => (0..len)
                    .map(|_| match rng.random_range(0..10) {
                        0..=4 => 1,
                        5..=6 => 0,
                        _ => rng.random_range(2..6),
                    })
                    .collect(),
            };
            let leaves = m.verif_split_leaves(&dec);
            writeln!(
                f,
                "{{\"ti\":{},\"buckets\":{},\"ctrl\":{:?},\"dec\":{:?},\"leaves\":{:?}}}",
                ti, if d.bucket_mask == 0 { 1 } else { buckets }, d.ctrl, dec, leaves
            )
            .unwrap();
        }
    }
    f.flush().unwrap();
    0
}
