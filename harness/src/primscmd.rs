//! `hbv prims`: feeds control-byte groups to the scanner primitives of the compiled back-end (through the
//! read-only hooks) and records their answers for validation against spec/HbGroup.tla (C18).

use hashbrown::verif as hv;
use rand::rngs::SmallRng;
use rand::{Rng, SeedableRng};
use std::io::Write;

fn rec(f: &mut dyn Write, g: &[u8], tag: u8) {
    let w = hv::GROUP_WIDTH;
    let mut s = format!("{{\"g\":{:?},\"tag\":{}", &g[..w], tag);
    for (name, op) in [("mt", 0u8), ("me", 1), ("med", 2), ("mf", 3)] {
        let m = hv::group_match(g, op, tag);
        s.push_str(&format!(
            ",\"{}\":{:?},\"{}_any\":{},\"{}_low\":{},\"{}_tz\":{},\"{}_lz\":{}",
            name,
            m.bits,
            name,
            m.any as u8,
            name,
            m.lowest.map(|x| x as i64).unwrap_or(-1),
            name,
            m.trailing_zeros,
            name,
            m.leading_zeros
        ));
    }
    s.push_str(&format!(",\"cv\":{:?}}}", hv::group_convert(g)));
    writeln!(f, "{}", s).unwrap();
}

pub fn run(out: &str, seed: u64, args: &[String]) -> i32 {
    let nrand: usize = args.first().and_then(|s| s.parse().ok()).unwrap_or(400);
    let mut f: Box<dyn Write> = if out == "-" {
        Box::new(std::io::BufWriter::new(std::io::stdout()))
    } else {
        Box::new(std::io::BufWriter::new(std::fs::File::create(out).unwrap()))
    };
    let w = hv::GROUP_WIDTH;
    let mut rng = SmallRng::seed_from_u64(seed ^ 0x51D);
    // 2-byte windows over a boundary alphabet at every interesting position, remaining bytes EMPTY / a filler
    for tag in [0u8, 1, 42, 126, 127] {
        // valid control bytes only: EMPTY, DELETED or a 7-bit tag (the table never holds anything else)
        let alpha = [tag, tag ^ 1, 0xFF, 0x80, 0x00, 0x7F, 0x01, (tag + 1) & 0x7F, tag ^ 2, 0x7E];
        for pos in [0usize, 1, 3, w / 2 - 1, w - 2] {
            for filler in [0xFFu8, 0x80, tag ^ 2, tag] {
                for &b1 in &alpha {
                    for &b2 in &alpha {
                        let mut g = vec![filler; 16];
                        g[pos] = b1;
                        g[pos + 1] = b2;
                        rec(&mut *f, &g, tag);
                    }
                }
            }
        }
    }
    // random full groups over control-byte-like alphabets
    for _ in 0..nrand {
        let tag: u8 = rng.random_range(0..128);
        let mut g = vec![0u8; 16];
        for b in g.iter_mut() {
            *b = match rng.random_range(0..8) {
                0 => 0xFF,
                1 => 0x80,
                2 => tag,
                3 => tag ^ 1,
                4 => rng.random_range(0..128),
                5 => tag,
                6 => rng.random_range(0..128),
                _ => 0xFF,
            };
        }
        rec(&mut *f, &g, tag);
    }
    f.flush().unwrap();
    0
}
