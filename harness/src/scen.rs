//! Scenarios: hash-plan families, element layouts, random operation mixes, behaviour replay.

use crate::env::{self, *};
use crate::mapdrv::MapDrv;
use crate::setdrv::SetDrv;
use crate::tabledrv::{ElemT, TableDrv, T0, T0A, T1, TE};
use crate::trace::{Event, Tracer};
use rand::rngs::SmallRng;
use rand::{Rng, SeedableRng};

#[derive(Clone, Debug)]
pub struct Scen {
    pub kind: String,
    pub layout: String,
    pub plan: String,
    pub nkeys: u32,
    pub ops: usize,
    pub mix: String,
    pub opts: Vec<(String, String)>,
}

impl Scen {
    pub fn parse(s: &str) -> Scen {
        let p: Vec<&str> = s.split(':').collect();
        assert!(p.len() >= 6, "scenario must be kind:layout:plan:nkeys:ops:mix[:opts]");
        let opts = if p.len() > 6 {
            p[6].split(',')
                .filter(|x| !x.is_empty())
                .map(|kv| {
                    let mut it = kv.splitn(2, '=');
                    (it.next().unwrap().to_string(), it.next().unwrap_or("1").to_string())
                })
                .collect()
        } else {
            vec![]
        };
        Scen {
            kind: p[0].into(),
            layout: p[1].into(),
            plan: p[2].into(),
            nkeys: p[3].parse().unwrap(),
            ops: p[4].parse().unwrap(),
            mix: p[5].into(),
            opts,
        }
    }
    pub fn opt(&self, k: &str) -> Option<&str> {
        self.opts.iter().find(|(a, _)| a == k).map(|(_, b)| b.as_str())
    }
    pub fn opt_u(&self, k: &str, d: u64) -> u64 {
        self.opt(k).and_then(|s| s.parse().ok()).unwrap_or(d)
    }
    pub fn name(&self) -> String {
        format!("{}:{}:{}:{}:{}:{}", self.kind, self.layout, self.plan, self.nkeys, self.ops, self.mix)
    }
}

pub fn mkhash(pos: u64, tag: u64) -> u64 {
    (tag << 57) | (pos & 0xFFFF)
}

/// Hash-plan families of the quantifier of C01 (positions and tags fixed independently).
pub fn make_plan(family: &str, nkeys: u32, rng: &mut SmallRng) -> Vec<u64> {
    let mut v = Vec::new();
    for k in 0..nkeys.max(1) {
        let h = match family {
            "mixed" => mkhash(rng.random_range(0..65536), rng.random_range(0..128)),
            "zero" => 0,
            "max" => mkhash(65535, 127),
            "collide" => {
                let poss = [0u64, 0, 0, 5, 15, 16, 31, 63];
                mkhash(poss[rng.random_range(0..poss.len())], rng.random_range(0..2))
            }
            "posfix" => mkhash(7, rng.random_range(0..128)),
            "tagfix" => mkhash(rng.random_range(0..256), 3),
            "fewpos" => mkhash([0u64, 16, 32, 48][rng.random_range(0..4)], rng.random_range(0..4)),
            "onegroup" => mkhash(rng.random_range(0..16), rng.random_range(0..2)),
            "seq" => mkhash(k as u64, (k % 128) as u64),
            // clusters that start in the last groups of the table and run over its end into the first group
            "wrap" => mkhash(65535 - rng.random_range(0..22), rng.random_range(0..3)),
            // overlapping short clusters: probes meet real EMPTY bytes before tombstones
            "spread" => mkhash((k as u64 * 7) % 64, (k % 4) as u64),
            "lowbit" => mkhash(rng.random_range(0..4), [2u64, 3][rng.random_range(0..2)]),
            other => panic!("unknown plan family {}", other),
        };
        v.push(h);
    }
    v
}

pub fn mix_table(mix: &str) -> Vec<(&'static str, u32)> {
    match mix {
        "churn" => vec![("insert", 45), ("remove", 45), ("get", 5), ("contains", 5)],
        "basic" => vec![
            ("insert", 30), ("remove", 28), ("get", 6), ("get_q", 4), ("contains", 4), ("get_mut", 4),
            ("get_kv_mut", 2), ("remove_entry", 4), ("try_insert", 4), ("e_or_insert", 5), ("reserve", 2),
            ("shrink_to", 3), ("shrink_to_fit", 1), ("clear", 1), ("extend", 2), ("from_iter", 1),
        ],
        "entry" => vec![
            ("insert", 12), ("remove", 20), ("get", 4),
            ("e_or_insert", 6), ("e_or_insert_with", 4), ("e_or_insert_with_key", 3), ("e_and_modify_or_insert", 4),
            ("e_insert", 5), ("e_remove", 6), ("e_remove_entry", 4), ("e_occ_insert", 4), ("e_occ_get_mut", 3),
            ("e_replace_some", 3), ("e_replace_none", 4), ("e_and_replace_some", 3), ("e_and_replace_none", 4),
            ("e_vacant_drop", 4), ("e_insert_entry", 4), ("e_into_key", 2),
            ("er_or_insert", 5), ("er_insert", 4), ("er_and_modify_or_insert", 3),
            ("er_drop", 3), ("er_insert_entry", 3),
            ("rc_or_insert", 5), ("rc_insert", 4), ("rc_remove", 4), ("rc_vacant_drop", 3), ("rc_insert_entry", 3),
            ("re_from_key_or_insert", 4), ("re_hashed_or_insert", 3), ("re_from_hash_or_insert", 3),
            ("re_insert_hashed_nocheck", 3), ("re_insert_with_hasher", 3), ("re_remove", 4),
            ("re_replace_some", 2), ("re_replace_none", 3), ("re_drop", 2), ("re_get", 3),
            ("shrink_to_fit", 1), ("reserve", 1),
        ],
        "iter" => vec![
            ("insert", 30), ("remove", 22), ("iter", 12), ("drain", 4), ("retain", 5), ("extract_if", 6),
            ("into_iter", 2), ("shrink_to_fit", 1), ("clear", 1), ("extend", 3), ("iter_default", 1),
        ],
        "two" => vec![
            ("insert", 30), ("remove", 25), ("clone", 4), ("clone_from", 8), ("eq", 6), ("get", 4),
            ("shrink_to", 2), ("reserve", 2), ("clear", 1), ("drain", 1), ("retain", 2), ("new", 3),
        ],
        "fault" => vec![
            ("insert", 34), ("remove", 24), ("e_or_insert", 5), ("rc_or_insert", 4), ("try_insert", 3), ("reserve", 3),
            ("shrink_to", 3), ("shrink_to_fit", 2), ("clear", 2), ("retain", 3), ("extract_if", 2), ("drain", 2),
            ("clone", 3), ("clone_from", 6), ("extend", 3), ("get", 3), ("eq", 2), ("new", 3), ("into_iter", 1),
            ("e_replace_none", 2), ("e_insert", 2), ("re_from_key_or_insert", 2), ("get_many_mut", 2), ("iter", 1),
        ],
        "tryres" => vec![
            ("insert", 30), ("remove", 22), ("try_reserve", 40), ("shrink_to_fit", 3), ("clear", 1), ("drain", 2), ("get", 2),
        ],
        "many" => vec![
            ("insert", 30), ("remove", 20), ("get_many_mut", 15), ("get_many_kv_mut", 8), ("index", 4),
            ("insert_unique_unchecked", 3),
        ],
        "cap" => vec![
            ("insert", 30), ("remove", 25), ("reserve", 8), ("shrink_to", 8), ("shrink_to_fit", 3),
            ("with_capacity", 3), ("new", 1), ("clear", 2), ("drain", 2), ("try_reserve", 6), ("e_or_insert", 4),
            ("rc_or_insert", 3),
        ],
        "set" => vec![
            ("insert", 28), ("remove", 22), ("replace", 6), ("take", 6), ("get", 5), ("contains", 4),
            ("get_or_insert", 6), ("get_or_insert_with", 6), ("s_entry_insert", 3), ("s_entry_or_insert", 3),
            ("s_entry_remove", 4), ("s_entry_get", 2), ("s_entry_into_value", 2), ("extend", 2), ("from_iter", 1), ("retain", 2),
            ("extract_if", 2), ("drain", 1), ("iter", 4), ("into_iter", 1), ("shrink_to_fit", 1), ("reserve", 1), ("iter_default", 1),
            ("shrink_to", 1), ("clear", 1),
        ],
        "setalg" => vec![
            ("insert", 24), ("remove", 16), ("replace", 2), ("take", 2), ("union", 6), ("intersection", 6),
            ("difference", 6), ("symmetric_difference", 6), ("is_subset", 4), ("is_superset", 3), ("is_disjoint", 4),
            ("eq", 4), ("op_or", 2), ("op_and", 2), ("op_xor", 2), ("op_sub", 2), ("or_assign", 3), ("and_assign", 3),
            ("xor_assign", 4), ("sub_assign", 4), ("clone", 2), ("clone_from", 3), ("clear", 1), ("shrink_to_fit", 1),
            ("extend", 3), ("retain", 1), ("drain", 1),
        ],
        "table" => vec![
            ("t_insert_unique", 26), ("t_remove", 22), ("t_find", 8), ("t_find_mut", 4), ("t_entry_or_insert", 8),
            ("t_entry_insert", 4), ("t_entry_and_modify", 3), ("t_entry_drop", 3), ("t_remove_reinsert", 8),
            ("t_occ_get_mut", 2), ("t_iter_hash", 6), ("retain", 2), ("t_extract_if", 3), ("drain", 1), ("iter", 4),
            ("into_iter", 1), ("clear", 1), ("reserve", 2), ("shrink_to", 2), ("t_shrink_to_fit", 2), ("try_reserve", 1),
            ("clone", 1), ("clone_from", 2), ("t_get_many_mut", 4), ("iter_default", 1),
        ],
        "tablezst" => vec![
            ("t_insert_unique", 30), ("t_remove", 24), ("t_find", 6), ("t_entry_drop", 3), ("t_remove_reinsert", 6),
            ("t_iter_hash", 4), ("retain", 2), ("t_extract_if", 3), ("drain", 2), ("iter", 5), ("into_iter", 2),
            ("clear", 1), ("reserve", 2), ("shrink_to", 2), ("t_shrink_to_fit", 2), ("clone", 1), ("clone_from", 2),
        ],
        "serde" => vec![
            ("insert", 30), ("remove", 18), ("serde_roundtrip", 8), ("serde_de", 22), ("get", 4), ("clear", 1), ("shrink_to_fit", 1),
        ],
        "serdeset" => vec![
            ("insert", 30), ("remove", 18), ("serde_roundtrip", 8), ("serde_de", 12), ("serde_de_in_place", 14), ("contains", 4), ("clear", 1),
        ],
        "par" => vec![
            ("insert", 30), ("remove", 18), ("par_iter", 12), ("par_drain", 6), ("into_par_iter", 3), ("par_extend", 6), ("par_eq", 4),
            ("extend", 2), ("clone_from", 2), ("shrink_to_fit", 1),
        ],
        "parset" => vec![
            ("insert", 30), ("remove", 16), ("par_iter", 8), ("par_drain", 5), ("into_par_iter", 2), ("par_union", 4),
            ("par_intersection", 4), ("par_difference", 4), ("par_symmetric_difference", 4), ("par_is_subset", 3), ("par_is_superset", 2),
            ("par_is_disjoint", 3), ("par_eq", 3), ("extend", 2),
        ],
        "partable" => vec![
            ("t_insert_unique", 34), ("t_remove", 18), ("par_iter", 12), ("par_drain", 7), ("into_par_iter", 3), ("t_find", 4), ("clone_from", 2),
        ],
        "wide" => {
            let mut v = vec![];
            for m in ["basic", "entry", "iter", "many", "cap"] {
                v.extend(mix_table(m));
            }
            v
        }
        other => panic!("unknown mix {}", other),
    }
}

pub struct OpGen {
    pub table: Vec<(&'static str, u32)>,
    pub total: u32,
    pub nkeys: u32,
    pub nt: usize,
    pub step: std::cell::Cell<usize>,
    /// order-insensitive API use only (cross-build comparison, C18): no partially consumed extract_if
    pub det: bool,
}

impl OpGen {
    pub fn new(mix: &str, nkeys: u32, nt: usize) -> OpGen {
        let table = mix_table(mix);
        let total = table.iter().map(|x| x.1).sum();
        OpGen { table, total, nkeys, nt, step: std::cell::Cell::new(0), det: false }
    }
    /// Weighted choice; the weights of inserting and removing operations oscillate in phases (fill, drain,
    /// churn) so that walks reach full load, tombstone saturation and near-empty tables.
    pub fn pick(&self, rng: &mut SmallRng) -> &'static str {
        let step = self.step.get();
        self.step.set(step + 1);
        let phase = (step / 150) % 4; // 0 fill, 1 churn, 2 drain, 3 churn
        let w_of = |n: &str, w: u32| -> u32 {
            let ins = n == "insert" || n == "t_insert_unique" || n == "extend";
            let rem = n == "remove" || n == "t_remove" || n == "take";
            match phase {
                0 if ins => w * 3,
                0 if rem => w / 3,
                2 if rem => w * 3,
                2 if ins => w / 3,
                _ => w,
            }
        };
        let total: u32 = self.table.iter().map(|(n, w)| w_of(n, *w)).sum();
        let mut x = rng.random_range(0..total);
        for (n, w) in &self.table {
            let w = w_of(n, *w);
            if x < w {
                return n;
            }
            x -= w;
        }
        unreachable!()
    }
    /// Generates the arguments of a map/set-style operation.
    pub fn gen(&self, rng: &mut SmallRng, absent: &dyn Fn(usize, u32) -> bool) -> Event {
        let name = self.pick(rng);
        let t = if self.nt > 1 { rng.random_range(1..=self.nt) } else { 1 };
        let mut ev = Event::new(name, t);
        ev.k = rng.random_range(0..self.nkeys) as i64;
        ev.v = rng.random_range(1..4);
        match name {
            "new" => ev.n = (t - 1) as i64,
            "with_capacity" => {
                ev.n = rng.random_range(0..60);
                ev.j = (t - 1) as i64;
            }
            "reserve" => ev.n = rng.random_range(0..(2 * self.nkeys as i64 + 2)),
            "shrink_to" => ev.n = rng.random_range(0..(2 * self.nkeys as i64 + 2)),
            "try_reserve" => {
                let c = rng.random_range(0..10);
                if c < 6 {
                    // small amounts, biased to the 7/8 * 2^k boundaries
                    let b = [3i64, 7, 14, 28, 56, 112][rng.random_range(0..6)];
                    ev.n = if rng.random_range(0..2) == 0 { rng.random_range(0..(3 * self.nkeys as i64)) } else { (b + rng.random_range(-2..3)).max(0) };
                } else {
                    ev.n = -(rng.random_range(1..7) as i64);
                    ev.j = rng.random_range(0..3);
                }
            }
            "extend" | "from_iter" => {
                let n = rng.random_range(0..6);
                for _ in 0..n {
                    ev.ks.push(rng.random_range(0..self.nkeys) as i64);
                    ev.ks.push(rng.random_range(1..4));
                }
            }
            "retain" | "extract_if" => {
                for c in 0..self.nkeys {
                    if rng.random_range(0..2) == 0 {
                        ev.ks.push(c as i64);
                    }
                }
                ev.j = if self.det || rng.random_range(0..3) == 0 { -1 } else { rng.random_range(0..6) };
            }
            "drain" => {
                ev.j = if rng.random_range(0..2) == 0 { -1 } else { rng.random_range(0..6) };
                ev.n = match rng.random_range(0..8) {
                    0 => 1,     // the Drain is leaked
                    1 | 2 => 2, // the rest is consumed by fold
                    _ => 0,
                };
            }
            "iter" => {
                ev.n = rng.random_range(0..5);
                ev.j = if rng.random_range(0..2) == 0 { -1 } else { rng.random_range(0..8) };
                ev.u = if rng.random_range(0..2) == 0 { usize::MAX } else { rng.random_range(0..6) };
            }
            "into_iter" => {
                ev.n = rng.random_range(0..3);
                ev.j = if rng.random_range(0..2) == 0 { -1 } else { rng.random_range(0..6) };
            }
            "serde_roundtrip" => {
                ev.u = if self.nt > 1 { 3 - t } else { t };
            }
            "serde_de" | "serde_de_in_place" => {
                let n = rng.random_range(0..14);
                let setlike = self.table.iter().any(|x| x.0 == "serde_de_in_place");
                for _ in 0..n {
                    ev.ks.push(rng.random_range(0..self.nkeys) as i64);
                    if !setlike {
                        ev.ks.push(rng.random_range(1..4));
                    }
                }
                // honest, lying and absent size hints
                ev.n = match rng.random_range(0..8) {
                    0 => -1,
                    1 => -2,
                    2 => -3,
                    3 => 4096,
                    4 => 5000,
                    5 => 100000,
                    _ => n as i64,
                };
                ev.j = if rng.random_range(0..3) == 0 { rng.random_range(0..(n + 1)) as i64 } else { -1 };
            }
            "par_iter" | "par_drain" | "into_par_iter" => {
                ev.n = if name == "par_iter" { rng.random_range(0..5) } else { rng.random_range(0..3) };
                ev.j = [1i64, 2, 3, 8, 64][rng.random_range(0..5)];
            }
            "par_extend" => {
                let n = rng.random_range(0..40);
                for _ in 0..n {
                    ev.ks.push(rng.random_range(0..self.nkeys) as i64);
                    ev.ks.push(rng.random_range(1..4));
                }
                ev.j = [1i64, 2, 3, 8, 64][rng.random_range(0..5)];
            }
            "par_eq" | "par_union" | "par_intersection" | "par_difference" | "par_symmetric_difference" | "par_is_subset"
            | "par_is_superset" | "par_is_disjoint" => {
                ev.u = if self.nt > 1 { 3 - t } else { t };
                ev.j = [1i64, 2, 3, 8, 64][rng.random_range(0..5)];
            }
            "clone" | "clone_from" | "eq" | "is_subset" | "is_superset" | "is_disjoint" | "union" | "intersection"
            | "difference" | "symmetric_difference" | "op_or" | "op_and" | "op_xor" | "op_sub" | "or_assign" | "and_assign"
            | "xor_assign" | "sub_assign" => {
                ev.u = if self.nt > 1 { 3 - t } else { t };
            }
            "t_insert_unique" | "t_find" | "t_find_mut" | "t_entry_or_insert" | "t_entry_insert" | "t_entry_and_modify"
            | "t_entry_drop" | "t_remove" | "t_remove_reinsert" | "t_occ_get_mut" => {
                ev.n = if !self.det && rng.random_range(0..6) == 0 { 1 } else { 0 };
            }
            "t_iter_hash" => {
                ev.n = if rng.random_range(0..6) == 0 { 1 } else { 0 };
                ev.j = rng.random_range(0..2);
            }
            "t_extract_if" => {
                for c in 0..self.nkeys {
                    if rng.random_range(0..2) == 0 {
                        ev.ks.push(c as i64);
                    }
                }
                ev.j = if self.det || rng.random_range(0..3) == 0 { -1 } else { rng.random_range(0..6) };
            }
            "t_get_many_mut" => {
                let n = rng.random_range(0..5);
                for _ in 0..n {
                    ev.ks.push(rng.random_range(0..self.nkeys) as i64);
                }
                ev.v = rng.random_range(10..20);
                ev.j = if !self.det && rng.random_range(0..4) == 0 { 1 } else { 0 };
            }
            "get_or_insert_with" => {
                ev.n = if rng.random_range(0..5) == 0 { rng.random_range(0..self.nkeys) as i64 } else { ev.k };
            }
            "get_many_mut" | "get_many_kv_mut" => {
                let n = rng.random_range(0..5);
                for _ in 0..n {
                    ev.ks.push(rng.random_range(0..self.nkeys) as i64);
                }
                ev.v = rng.random_range(10..20);
                ev.n = (self.step.get() % 2) as i64;      // every second call uses the unsized borrowed form (Key only)
            }
            "insert_unique_unchecked" => {
                // only legal for absent keys: search one, else degrade to insert
                let mut found = false;
                for _ in 0..8 {
                    let c = rng.random_range(0..self.nkeys);
                    if absent(t, c) {
                        ev.k = c as i64;
                        found = true;
                        break;
                    }
                }
                if !found {
                    ev.op = "insert".into();
                }
            }
            "re_get" => ev.n = rng.random_range(0..3),
            _ => {}
        }
        ev
    }
}

fn run_map<K: KeyT, V: ValT>(sc: &Scen, seed: u64, tr: &mut Tracer) -> i32
where
    for<'a> K: From<&'a K::Q>,
{
    let mut rng = SmallRng::seed_from_u64(seed ^ 0x9E37_79B9_7F4A_7C15);
    let nt = sc.opt_u("nt", if sc.mix == "two" || sc.mix == "fault" || sc.mix == "par" || sc.mix == "serde" { 2 } else { 1 }) as usize;
    env::reset_all();
    let p1 = make_plan(&sc.plan, sc.nkeys, &mut rng);
    let p2 = make_plan(sc.opt("plan2").unwrap_or(&sc.plan), sc.nkeys, &mut rng);
    env::with(|e| e.plans = vec![p1, p2]);
    let chaos_h = sc.opt_u("chaos", 0) > 0;
    let chaos_e = sc.opt_u("chaoseq", 0) > 0;
    if chaos_h || chaos_e {
        env::setup_chaos(seed ^ 0xC4A05, vec![0, 0, 5, 15, 16, 31, 63, 65535], 3, chaos_h, chaos_e);
    }
    let w = hashbrown::verif::GROUP_WIDTH;
    let (es, _) = hashbrown::verif::table_layout::<(K, V)>();
    let ea = std::mem::align_of::<(K, V)>();
    tr.reset(
        "map",
        &sc.name(),
        w,
        es,
        ea,
        std::mem::needs_drop::<(K, V)>(),
        K::TRACKED,
        nt,
        if sc.opt_u("chaos", 0) > 0 || sc.opt_u("chaoseq", 0) > 0 {
            "chaos"
        } else if sc.opt_u("fault", 0) > 0 {
            "fault"
        } else {
            "lawful"
        },
        seed,
    );
    let mut drv: MapDrv<K, V> = MapDrv::new(nt, w);
    for t in 1..=nt {
        let mut ev = Event::new("new", t);
        ev.n = (t - 1) as i64;
        drv.exec(ev, tr);
    }
    let fault_pct = sc.opt_u("fault", 0) as u32;
    let mut gen = OpGen::new(&sc.mix, sc.nkeys, nt);
    gen.det = sc.opt_u("det", 0) > 0;
    for _ in 0..sc.ops {
        let ev = {
            let tabs = &drv.tabs;
            gen.gen(&mut rng, &|t, c| tabs[t - 1].as_ref().map_or(true, |m| !m.contains_key(&K::q(c))))
        };
        let mut ev = ev;
        arm_random_class(&mut ev, fault_pct, &mut rng, sc.opt("fclass"));
        drv.exec(ev, tr);
    }
    for t in 1..=nt {
        drv.exec(Event::new("drop", t), tr);
    }
    finish(tr)
}

/// With probability `pct`% arms one fault (callback class + invocation index) for the operation.
pub fn arm_random(ev: &mut Event, pct: u32, rng: &mut SmallRng) {
    arm_random_class(ev, pct, rng, None)
}

pub fn arm_random_class(ev: &mut Event, pct: u32, rng: &mut SmallRng, force: Option<&str>) {
    if pct == 0 || rng.random_range(0..100) >= pct {
        return;
    }
    let c = rng.random_range(0..100);
    let cloning = matches!(ev.op.as_str(), "clone" | "clone_from" | "or_assign" | "xor_assign" | "op_or" | "op_and" | "op_xor" | "op_sub");
    let class = if ev.op == "try_reserve" {
        "alloc"
    } else if cloning {
        if c < 45 {
            "clone"
        } else if c < 70 {
            "bh_clone"
        } else if c < 90 {
            "drop"
        } else {
            "hash"
        }
    } else if c < 62 {
        "hash"
    } else if c < 80 {
        "eq"
    } else {
        "drop"
    };
    let k = [1, 1, 2, 2, 3, 4, 5, 7, 10][rng.random_range(0..9)];
    let class = force.unwrap_or(class);
    ev.fa = class.to_string();
    ev.fk = k;
}

/// Final pseudo-event: registry and allocator must be empty, no observer error.
pub fn finish(tr: &mut Tracer) -> i32 {
    let (nl, nb, errs) = env::with(|e| (e.live.len(), e.blocks.len(), e.errors.clone()));
    let mut s = format!("{{\"op\":\"end\",\"nl\":{},\"nb\":{},\"errs\":[", nl, nb);
    for (i, e) in errs.iter().enumerate() {
        if i > 0 {
            s.push(',');
        }
        s.push('"');
        s.push_str(&e.replace('"', "'").replace('\\', "/"));
        s.push('"');
    }
    s.push_str("]}");
    tr.raw(&s);
    tr.flush();
    0
}

fn run_set<K: KeyT>(sc: &Scen, seed: u64, tr: &mut Tracer) -> i32
where
    for<'a> K: From<&'a K::Q>,
{
    let mut rng = SmallRng::seed_from_u64(seed ^ 0x9E37_79B9_7F4A_7C15);
    let nt = 3usize;
    env::reset_all();
    let p1 = make_plan(&sc.plan, sc.nkeys, &mut rng);
    let p2 = make_plan(sc.opt("plan2").unwrap_or(&sc.plan), sc.nkeys, &mut rng);
    env::with(|e| e.plans = vec![p1, p2]);
    let chaos_h = sc.opt_u("chaos", 0) > 0;
    let chaos_e = sc.opt_u("chaoseq", 0) > 0;
    if chaos_h || chaos_e {
        env::setup_chaos(seed ^ 0xC4A05, vec![0, 0, 5, 15, 16, 31, 63, 65535], 3, chaos_h, chaos_e);
    }
    let mode = if chaos_h || chaos_e { "chaos" } else if sc.opt_u("fault", 0) > 0 { "fault" } else { "lawful" };
    let w = hashbrown::verif::GROUP_WIDTH;
    let (es, _) = hashbrown::verif::table_layout::<(K, ())>();
    let ea = std::mem::align_of::<(K, ())>();
    tr.reset("set", &sc.name(), w, es, ea, std::mem::needs_drop::<K>(), K::TRACKED, nt, mode, seed);
    let mut drv: SetDrv<K> = SetDrv::new(nt, w);
    for t in 1..=nt {
        let mut ev = Event::new("new", t);
        ev.n = if t == 2 { 1 } else { 0 };
        drv.exec(ev, tr);
    }
    let mut gen = OpGen::new(&sc.mix, sc.nkeys, 2);
    gen.det = sc.opt_u("det", 0) > 0;
    let fault_pct = sc.opt_u("fault", 0) as u32;
    for _ in 0..sc.ops {
        let mut ev = gen.gen(&mut rng, &|_t, _c| false);
        arm_random_class(&mut ev, fault_pct, &mut rng, sc.opt("fclass"));
        drv.exec(ev, tr);
    }
    for t in 1..=nt {
        drv.exec(Event::new("drop", t), tr);
    }
    finish(tr)
}

fn run_table<E: ElemT>(sc: &Scen, seed: u64, tr: &mut Tracer) -> i32 {
    let mut rng = SmallRng::seed_from_u64(seed ^ 0x9E37_79B9_7F4A_7C15);
    let nt = 2usize;
    env::reset_all();
    let p1 = make_plan(&sc.plan, sc.nkeys + 1, &mut rng);
    let p2 = make_plan(sc.opt("plan2").unwrap_or(&sc.plan), sc.nkeys + 1, &mut rng);
    env::with(|e| e.plans = vec![p1, p2]);
    let chaos_h = sc.opt_u("chaos", 0) > 0;
    let chaos_e = sc.opt_u("chaoseq", 0) > 0;
    if chaos_h || chaos_e {
        env::setup_chaos(seed ^ 0xC4A05, vec![0, 0, 5, 15, 16, 31, 63, 65535], 3, chaos_h, chaos_e);
    }
    let mode = if chaos_h || chaos_e { "chaos" } else if sc.opt_u("fault", 0) > 0 { "fault" } else { "lawful" };
    let w = hashbrown::verif::GROUP_WIDTH;
    let (es, _) = hashbrown::verif::table_layout::<E>();
    let ea = std::mem::align_of::<E>();
    tr.reset("table", &sc.name(), w, es, ea, std::mem::needs_drop::<E>(), E::TRACKED, nt, mode, seed);
    let mut drv: TableDrv<E> = TableDrv::new(nt, w);
    for t in 1..=nt {
        drv.exec(Event::new("new", t), tr);
    }
    let mut gen = OpGen::new(&sc.mix, sc.nkeys, nt);
    gen.det = sc.opt_u("det", 0) > 0;
    drv.nodup = gen.det;
    let fault_pct = sc.opt_u("fault", 0) as u32;
    for _ in 0..sc.ops {
        let mut ev = gen.gen(&mut rng, &|_t, _c| false);
        arm_random_class(&mut ev, fault_pct, &mut rng, sc.opt("fclass"));
        drv.exec(ev, tr);
    }
    for t in 1..=nt {
        drv.exec(Event::new("drop", t), tr);
    }
    finish(tr)
}

macro_rules! dispatch_table {
    ($layout:expr, $f:ident, $($arg:expr),*) => {
        match $layout {
            "te24" => $f::<TE<()>>($($arg),*),
            "te32" => $f::<TE<Pad8>>($($arg),*),
            "te208" => $f::<TE<Pad184>>($($arg),*),
            "tea64" => $f::<TE<PadA64>>($($arg),*),
            "t1" => $f::<T1>($($arg),*),
            "t0" => $f::<T0>($($arg),*),
            "t0a" => $f::<T0A>($($arg),*),
            other => panic!("unknown table layout {}", other),
        }
    };
}

macro_rules! dispatch_set {
    ($layout:expr, $f:ident, $($arg:expr),*) => {
        match $layout {
            "k8t" => $f::<Key>($($arg),*),
            "k1" => $f::<K1>($($arg),*),
            "k2" => $f::<K2>($($arg),*),
            "k4" => $f::<K4>($($arg),*),
            "k8" => $f::<K8>($($arg),*),
            "k3" => $f::<K3>($($arg),*),
            "k5" => $f::<K5>($($arg),*),
            "k6" => $f::<K6>($($arg),*),
            "k7" => $f::<K7>($($arg),*),
            other => panic!("unknown set layout {}", other),
        }
    };
}

macro_rules! dispatch_map {
    ($layout:expr, $f:ident, $($arg:expr),*) => {
        match $layout {
            "kv16" => $f::<Key, Val<()>>($($arg),*),
            "kv24" => $f::<Key, Val<Pad8>>($($arg),*),
            "kv200" => $f::<Key, Val<Pad184>>($($arg),*),
            "kva32" => $f::<Key, Val<PadA32>>($($arg),*),
            "kva64" => $f::<Key, Val<PadA64>>($($arg),*),
            "k4v4" => $f::<K4, u32>($($arg),*),
            "k1v4" => $f::<K1, u32>($($arg),*),
            "k8v4" => $f::<K8, u32>($($arg),*),
            "k3v4" => $f::<K3, u32>($($arg),*),
            "k5v4" => $f::<K5, u32>($($arg),*),
            other => panic!("unknown map layout {}", other),
        }
    };
}

pub fn drive(out: &str, seed: u64, scens: &[String]) -> i32 {
    let mut tr = Tracer::new(out);
    for (i, s) in scens.iter().enumerate() {
        let sc = Scen::parse(s);
        let sseed = seed.wrapping_mul(1_000_003).wrapping_add(i as u64);
        let rc = match sc.kind.as_str() {
            "map" => dispatch_map!(sc.layout.as_str(), run_map, &sc, sseed, &mut tr),
            "set" => dispatch_set!(sc.layout.as_str(), run_set, &sc, sseed, &mut tr),
            "table" => dispatch_table!(sc.layout.as_str(), run_table, &sc, sseed, &mut tr),
            other => panic!("unknown scenario kind {}", other),
        };
        if rc != 0 {
            return rc;
        }
    }
    tr.flush();
    0
}

// ---------------------------------------------------------------------------------------------
// replay of TLC-generated behaviours

fn ev_from_json(o: &serde_json::Value) -> Event {
    let mut ev = Event::new(o["op"].as_str().unwrap(), o["t"].as_u64().unwrap_or(1) as usize);
    let gi = |k: &str, d: i64| o.get(k).and_then(|x| x.as_i64()).unwrap_or(d);
    ev.u = gi("u", 0).max(0) as usize;
    if gi("u", 0) < 0 {
        ev.u = usize::MAX;
    }
    ev.k = gi("k", -1);
    ev.v = gi("v", 0);
    ev.n = gi("n", 0);
    ev.j = gi("j", 0);
    if let Some(a) = o.get("ks").and_then(|x| x.as_array()) {
        ev.ks = a.iter().map(|x| x.as_i64().unwrap()).collect();
    }
    // an injected callback panic: class ("hash", "eq", "clone", "drop", "bh_clone") at its fk-th invocation inside the call
    if let Some(fa) = o.get("fa").and_then(|x| x.as_str()) {
        ev.fa = fa.to_string();
        ev.fk = gi("fk", 1);
    }
    ev
}

fn replay_map<K: KeyT, V: ValT>(b: &serde_json::Value, name: &str, seed: u64, tr: &mut Tracer) -> i32
where
    for<'a> K: From<&'a K::Q>,
{
    env::reset_all();
    let plans: Vec<Vec<u64>> = b["plans"]
        .as_array()
        .unwrap()
        .iter()
        .map(|p| {
            p.as_array()
                .unwrap()
                .iter()
                .map(|h| mkhash(h[0].as_u64().unwrap(), h[1].as_u64().unwrap()))
                .collect()
        })
        .collect();
    let nt = b.get("nt").and_then(|x| x.as_u64()).unwrap_or(1) as usize;
    let mut plans = plans;
    while plans.len() < 2 {
        plans.push(plans[0].clone());
    }
    env::with(|e| e.plans = plans);
    let w = hashbrown::verif::GROUP_WIDTH;
    let (es, _) = hashbrown::verif::table_layout::<(K, V)>();
    let ea = std::mem::align_of::<(K, V)>();
    let faulty = b["ops"].as_array().map_or(false, |a| a.iter().any(|o| o.get("pa").is_some() || o.get("fa").is_some()));
    let chaos = b.get("chaos").and_then(|x| x.as_u64()).unwrap_or(0) > 0;
    if chaos {
        env::setup_chaos(seed ^ 0xC4A05, vec![0, 0, 5, 15, 16, 31, 63, 65535], 3, true, false);
    }
    tr.reset("map", name, w, es, ea, std::mem::needs_drop::<(K, V)>(), K::TRACKED, nt, if chaos { "chaos" } else if faulty { "fault" } else { "lawful" }, seed);
    let mut drv: MapDrv<K, V> = MapDrv::new(nt, w);
    for t in 1..=nt {
        let mut ev = Event::new("new", t);
        ev.n = (t - 1) as i64;
        drv.exec(ev, tr);
    }
    for o in b["ops"].as_array().unwrap() {
        let mut ev = ev_from_json(o);
        if let Some(pa) = o.get("pa").and_then(|x| x.as_u64()) {
            ev.fa = "hash".to_string();
            ev.fk = pa as i64;
        }
        drv.exec(ev, tr);
    }
    for t in 1..=nt {
        drv.exec(Event::new("drop", t), tr);
    }
    finish(tr)
}

fn plans_from(b: &serde_json::Value) -> Vec<Vec<u64>> {
    let mut plans: Vec<Vec<u64>> = b["plans"]
        .as_array()
        .unwrap()
        .iter()
        .map(|p| p.as_array().unwrap().iter().map(|h| mkhash(h[0].as_u64().unwrap(), h[1].as_u64().unwrap())).collect())
        .collect();
    while plans.len() < 2 {
        plans.push(plans[0].clone());
    }
    plans
}

fn replay_set<K: KeyT>(b: &serde_json::Value, name: &str, seed: u64, tr: &mut Tracer) -> i32
where
    for<'a> K: From<&'a K::Q>,
{
    env::reset_all();
    let plans = plans_from(b);
    env::with(|e| e.plans = plans);
    let nt = 3usize;
    let w = hashbrown::verif::GROUP_WIDTH;
    let (es, _) = hashbrown::verif::table_layout::<(K, ())>();
    let ea = std::mem::align_of::<(K, ())>();
    let faulty = b["ops"].as_array().map_or(false, |a| a.iter().any(|o| o.get("pa").is_some() || o.get("fa").is_some()));
    tr.reset("set", name, w, es, ea, std::mem::needs_drop::<K>(), K::TRACKED, nt, if faulty { "fault" } else { "lawful" }, seed);
    let mut drv: SetDrv<K> = SetDrv::new(nt, w);
    for t in 1..=nt {
        let mut ev = Event::new("new", t);
        ev.n = 0;
        drv.exec(ev, tr);
    }
    for o in b["ops"].as_array().unwrap() {
        let mut ev = ev_from_json(o);
        if let Some(pa) = o.get("pa").and_then(|x| x.as_u64()) {
            ev.fa = "hash".to_string();
            ev.fk = pa as i64;
        }
        drv.exec(ev, tr);
    }
    for t in 1..=nt {
        drv.exec(Event::new("drop", t), tr);
    }
    finish(tr)
}

fn replay_table<E: ElemT>(b: &serde_json::Value, name: &str, seed: u64, tr: &mut Tracer) -> i32 {
    env::reset_all();
    let plans = plans_from(b);
    env::with(|e| e.plans = plans);
    let nt = 2usize;
    let w = hashbrown::verif::GROUP_WIDTH;
    let (es, _) = hashbrown::verif::table_layout::<E>();
    let ea = std::mem::align_of::<E>();
    let faulty = b["ops"].as_array().map_or(false, |a| a.iter().any(|o| o.get("pa").is_some() || o.get("fa").is_some()));
    tr.reset("table", name, w, es, ea, std::mem::needs_drop::<E>(), E::TRACKED, nt, if faulty { "fault" } else { "lawful" }, seed);
    let mut drv: TableDrv<E> = TableDrv::new(nt, w);
    for t in 1..=nt {
        drv.exec(Event::new("new", t), tr);
    }
    for o in b["ops"].as_array().unwrap() {
        let mut ev = ev_from_json(o);
        if let Some(pa) = o.get("pa").and_then(|x| x.as_u64()) {
            ev.fa = "hash".to_string();
            ev.fk = pa as i64;
        }
        drv.exec(ev, tr);
    }
    for t in 1..=nt {
        drv.exec(Event::new("drop", t), tr);
    }
    finish(tr)
}

pub fn replay(out: &str, seed: u64, files: &[String]) -> i32 {
    let mut tr = Tracer::new(out);
    for f in files {
        let text = std::fs::read_to_string(f).expect("cannot read behaviours");
        for (i, line) in text.lines().enumerate() {
            let line = line.trim();
            if line.is_empty() {
                continue;
            }
            let b: serde_json::Value = serde_json::from_str(line).expect("bad behaviour json");
            let kind = b.get("kind").and_then(|x| x.as_str()).unwrap_or("map");
            let layout = b.get("layout").and_then(|x| x.as_str()).unwrap_or("kv16").to_string();
            let mut name = format!("replay:{}:{}", f.rsplit('/').next().unwrap_or(f), i);
            if let Some(nk) = b.get("churn_nk").and_then(|x| x.as_u64()) {
                // bounded-live-size churn: the header carries the bound for the allocation check of C13
                name = format!("map:kv16:goal:{}:0:churn", nk);
            }
            let rc = match kind {
                "map" => dispatch_map!(layout.as_str(), replay_map, &b, &name, seed, &mut tr),
                "set" => dispatch_set!(layout.as_str(), replay_set, &b, &name, seed, &mut tr),
                "table" => dispatch_table!(layout.as_str(), replay_table, &b, &name, seed, &mut tr),
                other => panic!("unknown behaviour kind {}", other),
            };
            if rc != 0 {
                return rc;
            }
        }
    }
    tr.flush();
    0
}
