//! Global instrumented environment: element registry, scripted hashers, checking allocator.
//!
//! Everything the specification treats as an *environment oracle* (hash answers, equality answers,
//! the index of the callback invocation that panics, the index of the allocation request that is
//! refused) lives here and is logged, so that a recorded trace is deterministic again.

use allocator_api2::alloc::{AllocError, Allocator, Layout};
use rand::rngs::SmallRng;
use rand::{Rng, SeedableRng};
use std::collections::{BTreeMap, BTreeSet};
use std::hash::{BuildHasher, Hash, Hasher};
use std::ptr::NonNull;
use std::sync::Mutex;

pub const RZ: usize = 64; // red zone on both sides of every block (also >= max alignment used)
pub const MAX_ALLOC: usize = 1 << 28; // requests above this are refused (like an exhausted heap)

#[derive(Default)]
pub struct Env {
    // hash plans: plans[pl][class] -> 64-bit hash
    pub plans: Vec<Vec<u64>>,
    // call counters within the current window
    pub hash_calls: u32,
    pub eq_calls: u32,
    pub clone_calls: u32,
    pub drop_calls: u32,
    // fault injection (0 = never): panic on the k-th invocation within the window
    pub panic_hash_at: u32,
    pub panic_eq_at: u32,
    pub panic_clone_at: u32,
    pub panic_drop_at: u32,
    pub panic_bh_clone_at: u32,
    pub bh_clone_calls: u32,
    // chaos (unlawful) hasher / eq: answers drawn fresh per call and logged
    pub chaos_hash: bool,
    pub chaos_eq: bool,
    pub chaos_rng: Option<SmallRng>,
    pub chaos_pos: Vec<u64>,
    pub chaos_tags: u64,
    pub hash_log: Vec<u64>,
    pub eq_log: Vec<u8>,
    // element registry
    pub next_id: u32,
    pub live: BTreeSet<u32>,
    pub drops: Vec<u32>,
    pub clones: Vec<(u32, u32)>,
    /// ids created inside the current window
    pub created: Vec<u32>,
    pub errors: Vec<String>,
    // allocator ledger
    pub blocks: BTreeMap<usize, (usize, usize)>, // user ptr -> (size, align)
    pub alloc_events: Vec<(i32, usize, usize)>,  // (+1 alloc | -1 dealloc | 0 refused, size, align)
    pub alloc_calls: u32,
    pub alloc_fail_at: u32,
    pub alloc_limit: usize, // refuse requests larger than this (0 = MAX_ALLOC)
    pub in_call: bool,
}

pub static ENV: Mutex<Option<Env>> = Mutex::new(None);

pub fn with<R>(f: impl FnOnce(&mut Env) -> R) -> R {
    let mut g = ENV.lock().unwrap_or_else(|e| e.into_inner());
    if g.is_none() {
        *g = Some(Env {
            next_id: 100_000,
            ..Default::default()
        });
    }
    f(g.as_mut().unwrap())
}

pub fn reset_all() {
    let mut g = ENV.lock().unwrap_or_else(|e| e.into_inner());
    *g = Some(Env {
        next_id: 100_000,
        ..Default::default()
    });
}

pub struct InjectedPanic(pub &'static str);

fn injected(what: &'static str) -> ! {
    std::panic::panic_any(InjectedPanic(what))
}

pub fn new_id() -> u32 {
    with(|e| {
        let id = e.next_id;
        e.next_id += 1;
        e.live.insert(id);
        if e.in_call {
            e.created.push(id);
        }
        id
    })
}

pub fn note_drop(id: u32) {
    if id == 0 {
        return;
    }
    let do_panic = with(|e| {
        if !e.live.remove(&id) {
            e.errors.push(format!("double drop or drop of unknown element id {}", id));
        }
        e.drops.push(id);
        e.drop_calls += 1;
        e.panic_drop_at != 0 && e.drop_calls == e.panic_drop_at
    });
    if do_panic && !std::thread::panicking() {
        injected("drop");
    }
}

pub fn check_live(id: u32, what: &str) {
    if id == 0 {
        return;
    }
    with(|e| {
        if !e.live.contains(&id) {
            e.errors.push(format!("{}: element id {} is not live (use after drop / uninitialised slot)", what, id));
        }
    });
}

/// Begin a window: reset per-call counters and logs.
pub fn begin_window() {
    with(|e| {
        e.hash_calls = 0;
        e.eq_calls = 0;
        e.clone_calls = 0;
        e.drop_calls = 0;
        e.bh_clone_calls = 0;
        e.alloc_calls = 0;
        e.drops.clear();
        e.clones.clear();
        e.created.clear();
        e.alloc_events.clear();
        e.hash_log.clear();
        e.eq_log.clear();
        e.in_call = true;
    });
}

/// Arms one fault for the current window.
pub fn arm(class: &str, k: i64) {
    if class.is_empty() {
        return;
    }
    with(|e| match class {
        "hash" => e.panic_hash_at = k as u32,
        "eq" => e.panic_eq_at = k as u32,
        "clone" => e.panic_clone_at = k as u32,
        "drop" => e.panic_drop_at = k as u32,
        "bh_clone" => e.panic_bh_clone_at = k as u32,
        "alloc" => e.alloc_fail_at = k as u32,
        _ => {}
    });
}

pub fn disarm() {
    with(|e| {
        e.panic_hash_at = 0;
        e.panic_eq_at = 0;
        e.panic_clone_at = 0;
        e.panic_drop_at = 0;
        e.panic_bh_clone_at = 0;
        e.alloc_fail_at = 0;
        e.alloc_limit = 0;
        e.in_call = false;
    });
}

// ---------------------------------------------------------------------------------------------
// hashers

#[derive(Debug, Default)]
pub struct PlanBH {
    pub pl: u8,
}

impl Clone for PlanBH {
    fn clone(&self) -> Self {
        let p = with(|e| {
            e.bh_clone_calls += 1;
            e.panic_bh_clone_at != 0 && e.bh_clone_calls == e.panic_bh_clone_at
        });
        if p {
            injected("bh_clone");
        }
        PlanBH { pl: self.pl }
    }
}

pub struct PlanHasher {
    pl: u8,
    class: u64,
}

impl Hasher for PlanHasher {
    fn write(&mut self, b: &[u8]) {
        for x in b {
            self.class = (self.class << 8) | (*x as u64);
        }
    }
    fn write_u8(&mut self, x: u8) {
        self.class = x as u64;
    }
    fn write_u16(&mut self, x: u16) {
        self.class = x as u64;
    }
    fn write_u32(&mut self, x: u32) {
        self.class = x as u64;
    }
    fn write_u64(&mut self, x: u64) {
        self.class = x;
    }
    fn finish(&self) -> u64 {
        let pl = self.pl as usize;
        let class = self.class as usize;
        let (h, p) = with(|e| {
            e.hash_calls += 1;
            let p = e.panic_hash_at != 0 && e.hash_calls == e.panic_hash_at;
            let h = if e.chaos_hash {
                let npos = e.chaos_pos.len();
                let tags = e.chaos_tags;
                let rng = e.chaos_rng.as_mut().unwrap();
                let pos = e.chaos_pos[rng.random_range(0..npos)];
                let tag: u64 = rng.random_range(0..tags);
                let h = (tag << 57) | pos;
                e.hash_log.push(h);
                h
            } else {
                e.plans[pl][class % e.plans[pl].len()]
            };
            (h, p)
        });
        if p {
            injected("hash");
        }
        h
    }
}

impl BuildHasher for PlanBH {
    type Hasher = PlanHasher;
    fn build_hasher(&self) -> PlanHasher {
        PlanHasher { pl: self.pl, class: 0 }
    }
}

/// A hash answer of the chaos (unlawful) hasher: fresh on every call, logged.  None when the hasher is lawful.
pub fn chaos_hash_answer() -> Option<u64> {
    with(|e| {
        if !e.chaos_hash {
            return None;
        }
        let npos = e.chaos_pos.len();
        let tags = e.chaos_tags;
        let rng = e.chaos_rng.as_mut().unwrap();
        let pos = e.chaos_pos[rng.random_range(0..npos)];
        let tag: u64 = rng.random_range(0..tags);
        let h = (tag << 57) | pos;
        e.hash_log.push(h);
        Some(h)
    })
}

pub fn plan_hash(pl: u8, class: u32) -> u64 {
    with(|e| {
        let p = &e.plans[pl as usize];
        p[class as usize % p.len()]
    })
}
pub fn hpos(h: u64) -> u64 {
    h & 0xFFFF
}
pub fn htag(h: u64) -> u64 {
    h >> 57
}

pub fn eq_hook(lawful: bool) -> bool {
    let (ans, p) = with(|e| {
        e.eq_calls += 1;
        let p = e.panic_eq_at != 0 && e.eq_calls == e.panic_eq_at;
        let ans = if e.chaos_eq {
            let r: bool = e.chaos_rng.as_mut().unwrap().random_range(0..3) == 0;
            e.eq_log.push(r as u8);
            r
        } else {
            lawful
        };
        (ans, p)
    });
    if p {
        injected("eq");
    }
    ans
}

pub fn clone_hook() {
    let p = with(|e| {
        e.clone_calls += 1;
        e.panic_clone_at != 0 && e.clone_calls == e.panic_clone_at
    });
    if p {
        injected("clone");
    }
}

// ---------------------------------------------------------------------------------------------
// element types

pub trait KeyT: Hash + Eq + Clone + Send + Sync + serde::Serialize + serde::de::DeserializeOwned + 'static {
    type Q: Hash + equivalent::Equivalent<Self> + Sync;
    const TRACKED: bool;
    fn make(class: u32) -> Self;
    fn class(&self) -> u32;
    fn id(&self) -> u32;
    fn q(class: u32) -> Self::Q;
    fn from_q(q: &Self::Q) -> Self;
    /// `get_many_mut` through an UNSIZED borrowed key form whose requests are prefixes of one shared buffer (they share their
    /// start address, like `&s[..2]` and `&s[..3]` of one string).  None: the key type has no such form.
    fn get_many_unsized<V>(_m: &mut hashbrown::HashMap<Self, V, PlanBH, CheckingAlloc>, _classes: &[u32]) -> Option<Vec<Option<*mut V>>> {
        None
    }
}

pub trait ValT: Clone + PartialEq + Send + Sync + serde::Serialize + serde::de::DeserializeOwned + 'static {
    fn make(v: u32) -> Self;
    fn v(&self) -> u32;
    fn id(&self) -> u32;
    fn set_v(&mut self, v: u32);
}

/// Tracked key: equality and hash look at `class` only; `id` is the identity of this object.
pub struct Key {
    pub class: u32,
    pub id: u32,
}
impl Hash for Key {
    fn hash<H: Hasher>(&self, state: &mut H) {
        check_live(self.id, "Key::hash");
        state.write_u32(self.class);
    }
}
impl PartialEq for Key {
    fn eq(&self, o: &Key) -> bool {
        check_live(self.id, "Key::eq lhs");
        check_live(o.id, "Key::eq rhs");
        eq_hook(self.class == o.class)
    }
}
impl Eq for Key {}
impl Clone for Key {
    fn clone(&self) -> Key {
        check_live(self.id, "Key::clone");
        clone_hook();
        let id = new_id();
        with(|e| e.clones.push((self.id, id)));
        Key { class: self.class, id }
    }
}
impl Drop for Key {
    fn drop(&mut self) {
        note_drop(self.id);
    }
}
/// Borrowed/equivalent lookup form of `Key`.
pub struct KQ(pub u32);
impl Hash for KQ {
    fn hash<H: Hasher>(&self, state: &mut H) {
        state.write_u32(self.0);
    }
}
impl equivalent::Equivalent<Key> for KQ {
    fn equivalent(&self, k: &Key) -> bool {
        check_live(k.id, "KQ::equivalent");
        eq_hook(self.0 == k.class)
    }
}
impl From<&KQ> for Key {
    fn from(q: &KQ) -> Key {
        Key { class: q.0, id: new_id() }
    }
}
/// Unsized borrowed form of `Key`: a byte slice of length class + 1 (only its length matters).
#[repr(transparent)]
pub struct KS([u8]);
impl KS {
    pub fn new(b: &[u8]) -> &KS {
        // SAFETY: KS is a transparent wrapper of [u8]
        unsafe { &*(b as *const [u8] as *const KS) }
    }
    fn class(&self) -> u32 {
        self.0.len() as u32 - 1
    }
}
impl Hash for KS {
    fn hash<H: Hasher>(&self, state: &mut H) {
        state.write_u32(self.class());
    }
}
impl equivalent::Equivalent<Key> for KS {
    fn equivalent(&self, k: &Key) -> bool {
        check_live(k.id, "KS::equivalent");
        eq_hook(self.class() == k.class)
    }
}
impl KeyT for Key {
    type Q = KQ;
    const TRACKED: bool = true;
    fn get_many_unsized<V>(m: &mut hashbrown::HashMap<Key, V, PlanBH, CheckingAlloc>, classes: &[u32]) -> Option<Vec<Option<*mut V>>> {
        let buf = [0u8; 1024];
        let q = |i: usize| KS::new(&buf[..classes[i] as usize + 1]);
        let out: Vec<Option<*mut V>> = match classes.len() {
            0 => m.get_many_mut::<KS, 0>([]).into_iter().map(|o| o.map(|v| v as *mut V)).collect(),
            1 => m.get_many_mut([q(0)]).into_iter().map(|o| o.map(|v| v as *mut V)).collect(),
            2 => m.get_many_mut([q(0), q(1)]).into_iter().map(|o| o.map(|v| v as *mut V)).collect(),
            3 => m.get_many_mut([q(0), q(1), q(2)]).into_iter().map(|o| o.map(|v| v as *mut V)).collect(),
            _ => m.get_many_mut([q(0), q(1), q(2), q(3)]).into_iter().map(|o| o.map(|v| v as *mut V)).collect(),
        };
        Some(out)
    }
    fn make(class: u32) -> Key {
        Key { class, id: new_id() }
    }
    fn class(&self) -> u32 {
        self.class
    }
    fn id(&self) -> u32 {
        self.id
    }
    fn q(class: u32) -> KQ {
        KQ(class)
    }
    fn from_q(q: &KQ) -> Key {
        Key::from(q)
    }
}

macro_rules! small_key {
    ($name:ident, $qname:ident, $ty:ty, $w:ident) => {
        /// Untracked small key without drop glue.
        #[derive(Clone, Copy, PartialEq, Eq, Debug)]
        pub struct $name(pub $ty);
        impl Hash for $name {
            fn hash<H: Hasher>(&self, state: &mut H) {
                state.$w(self.0);
            }
        }
        pub struct $qname(pub $ty);
        impl Hash for $qname {
            fn hash<H: Hasher>(&self, state: &mut H) {
                state.$w(self.0);
            }
        }
        impl equivalent::Equivalent<$name> for $qname {
            fn equivalent(&self, k: &$name) -> bool {
                self.0 == k.0
            }
        }
        impl KeyT for $name {
            type Q = $qname;
            const TRACKED: bool = false;
            fn make(class: u32) -> $name {
                $name(class as $ty)
            }
            fn class(&self) -> u32 {
                self.0 as u32
            }
            fn id(&self) -> u32 {
                0
            }
            fn q(class: u32) -> $qname {
                $qname(class as $ty)
            }
            fn from_q(q: &$qname) -> $name {
                $name(q.0)
            }
        }
        impl From<&$qname> for $name {
            fn from(q: &$qname) -> $name {
                $name(q.0)
            }
        }
    };
}
small_key!(K1, K1Q, u8, write_u8);
small_key!(K2, K2Q, u16, write_u16);
small_key!(K4, K4Q, u32, write_u32);
small_key!(K8, K8Q, u64, write_u64);

macro_rules! array_key {
    ($name:ident, $n:expr) => {
        /// Untracked byte-array key of an odd size (exercises layout padding of small tables).
        #[derive(Clone, Copy, PartialEq, Eq, Debug)]
        pub struct $name(pub [u8; $n]);
        impl Hash for $name {
            fn hash<H: Hasher>(&self, state: &mut H) {
                state.write_u8(self.0[0]);
            }
        }
        impl From<&$name> for $name {
            fn from(q: &$name) -> $name {
                *q
            }
        }
        impl KeyT for $name {
            type Q = $name;
            const TRACKED: bool = false;
            fn make(class: u32) -> $name {
                let mut a = [0x5au8; $n];
                a[0] = class as u8;
                $name(a)
            }
            fn class(&self) -> u32 {
                self.0[0] as u32
            }
            fn id(&self) -> u32 {
                0
            }
            fn q(class: u32) -> $name {
                Self::make(class)
            }
            fn from_q(q: &$name) -> $name {
                *q
            }
        }
    };
}
array_key!(K3, 3);
array_key!(K5, 5);
array_key!(K6, 6);
array_key!(K7, 7);

pub trait Pad: Copy + Default + Send + Sync + 'static {}
impl Pad for () {}
#[derive(Clone, Copy)]
pub struct Pad8(pub [u8; 8]);
impl Default for Pad8 {
    fn default() -> Self {
        Pad8([0x5a; 8])
    }
}
impl Pad for Pad8 {}
#[derive(Clone, Copy)]
pub struct Pad184(pub [u64; 23]);
impl Default for Pad184 {
    fn default() -> Self {
        Pad184([0x5a5a5a5a5a5a5a5a; 23])
    }
}
impl Pad for Pad184 {}
#[derive(Clone, Copy)]
#[repr(align(32))]
pub struct PadA32(pub [u8; 32]);
impl Default for PadA32 {
    fn default() -> Self {
        PadA32([0x5a; 32])
    }
}
impl Pad for PadA32 {}
#[derive(Clone, Copy)]
#[repr(align(64))]
pub struct PadA64(pub [u8; 64]);
impl Default for PadA64 {
    fn default() -> Self {
        PadA64([0x5a; 64])
    }
}
impl Pad for PadA64 {}

/// Tracked value with a payload that fixes the element layout.
pub struct Val<P: Pad> {
    pub v: u32,
    pub id: u32,
    pub pad: P,
}
impl<P: Pad> Clone for Val<P> {
    fn clone(&self) -> Self {
        check_live(self.id, "Val::clone");
        clone_hook();
        let id = new_id();
        with(|e| e.clones.push((self.id, id)));
        Val { v: self.v, id, pad: self.pad }
    }
}
impl<P: Pad> PartialEq for Val<P> {
    fn eq(&self, o: &Self) -> bool {
        check_live(self.id, "Val::eq lhs");
        check_live(o.id, "Val::eq rhs");
        self.v == o.v
    }
}
impl<P: Pad> Drop for Val<P> {
    fn drop(&mut self) {
        note_drop(self.id);
    }
}
impl<P: Pad> ValT for Val<P> {
    fn make(v: u32) -> Self {
        Val { v, id: new_id(), pad: P::default() }
    }
    fn v(&self) -> u32 {
        check_live(self.id, "Val::v");
        self.v
    }
    fn id(&self) -> u32 {
        self.id
    }
    fn set_v(&mut self, v: u32) {
        check_live(self.id, "Val::set_v");
        self.v = v;
    }
}
/// Untracked plain values (no drop glue).
impl ValT for () {
    fn make(_v: u32) -> Self {}
    fn v(&self) -> u32 {
        0
    }
    fn id(&self) -> u32 {
        0
    }
    fn set_v(&mut self, _v: u32) {}
}
impl ValT for u8 {
    fn make(v: u32) -> Self {
        v as u8
    }
    fn v(&self) -> u32 {
        *self as u32
    }
    fn id(&self) -> u32 {
        0
    }
    fn set_v(&mut self, v: u32) {
        *self = v as u8;
    }
}
impl ValT for u32 {
    fn make(v: u32) -> Self {
        v
    }
    fn v(&self) -> u32 {
        *self
    }
    fn id(&self) -> u32 {
        0
    }
    fn set_v(&mut self, v: u32) {
        *self = v;
    }
}

// ---------------------------------------------------------------------------------------------
// checking allocator

#[derive(Clone, Copy, Debug, Default)]
pub struct CheckingAlloc;

unsafe impl Allocator for CheckingAlloc {
    fn allocate(&self, layout: Layout) -> Result<NonNull<[u8]>, AllocError> {
        let size = layout.size();
        let align = layout.align();
        let refuse = with(|e| {
            e.alloc_calls += 1;
            let lim = if e.alloc_limit == 0 { MAX_ALLOC } else { e.alloc_limit };
            let bad_layout = !align.is_power_of_two() || size > (isize::MAX as usize) - (align - 1);
            if bad_layout {
                e.errors.push(format!("allocator asked for an invalid layout size={} align={}", size, align));
            }
            let r = bad_layout || size > lim || (e.alloc_fail_at != 0 && e.alloc_calls == e.alloc_fail_at);
            if r {
                e.alloc_events.push((0, size.min(i32::MAX as usize), align));
            }
            r
        });
        if refuse {
            return Err(AllocError);
        }
        let rz = RZ.max(align);
        let total = size + 2 * rz;
        let raw = unsafe { std::alloc::alloc(std::alloc::Layout::from_size_align(total, rz).unwrap()) };
        if raw.is_null() {
            return Err(AllocError);
        }
        unsafe {
            std::ptr::write_bytes(raw, 0xA5, rz);
            std::ptr::write_bytes(raw.add(rz), 0xCD, size);
            std::ptr::write_bytes(raw.add(rz + size), 0xA5, rz);
        }
        let user = unsafe { raw.add(rz) };
        with(|e| {
            e.blocks.insert(user as usize, (size, align));
            e.alloc_events.push((1, size, align));
        });
        Ok(NonNull::slice_from_raw_parts(unsafe { NonNull::new_unchecked(user) }, size))
    }

    unsafe fn deallocate(&self, ptr: NonNull<u8>, layout: Layout) {
        let user = ptr.as_ptr();
        let size = layout.size();
        let align = layout.align();
        let known = with(|e| {
            match e.blocks.remove(&(user as usize)) {
                Some((s, a)) => {
                    if s != size || a != align {
                        e.errors.push(format!(
                            "deallocate with layout ({},{}) but block was allocated with ({},{})",
                            size, align, s, a
                        ));
                    }
                    e.alloc_events.push((-1, s, a));
                    Some((s, a))
                }
                None => {
                    e.errors.push(format!("deallocate of unknown/freed block {:p} ({},{})", user, size, align));
                    None
                }
            }
        });
        if let Some((s, a)) = known {
            let rz = RZ.max(a);
            let raw = user.sub(rz);
            let mut bad = false;
            for i in 0..rz {
                if *raw.add(i) != 0xA5 || *raw.add(rz + s + i) != 0xA5 {
                    bad = true;
                }
            }
            if bad {
                with(|e| e.errors.push(format!("red zone of block ({},{}) was overwritten", s, a)));
            }
            std::ptr::write_bytes(user, 0xDD, s);
            std::alloc::dealloc(raw, std::alloc::Layout::from_size_align(s + 2 * rz, rz).unwrap());
        }
    }
}

/// Checks the red zones of every live block (called after every operation).
pub fn check_canaries() {
    with(|e| {
        let mut errs = vec![];
        for (&user, &(s, a)) in e.blocks.iter() {
            let rz = RZ.max(a);
            let raw = (user - rz) as *const u8;
            let mut bad = false;
            unsafe {
                for i in 0..rz {
                    if *raw.add(i) != 0xA5 || *raw.add(rz + s + i) != 0xA5 {
                        bad = true;
                    }
                }
            }
            if bad {
                errs.push(format!("red zone of live block ({},{}) was overwritten", s, a));
            }
        }
        e.errors.extend(errs);
    });
}

pub fn live_blocks() -> Vec<(usize, usize)> {
    with(|e| {
        let mut v: Vec<(usize, usize)> = e.blocks.values().cloned().collect();
        v.sort();
        v
    })
}

pub fn setup_chaos(seed: u64, pos: Vec<u64>, tags: u64, hash: bool, eq: bool) {
    with(|e| {
        e.chaos_rng = Some(SmallRng::seed_from_u64(seed));
        e.chaos_pos = pos;
        e.chaos_tags = tags;
        e.chaos_hash = hash;
        e.chaos_eq = eq;
    });
}

// ---------------------------------------------------------------------------------------------
// serde: keys and values travel as plain integers (class / value); identities are created on deserialisation

macro_rules! serde_as_u32 {
    ($t:ty, $get:expr, $make:expr) => {
        impl serde::Serialize for $t {
            fn serialize<S: serde::Serializer>(&self, s: S) -> Result<S::Ok, S::Error> {
                let f: fn(&$t) -> u32 = $get;
                s.serialize_u32(f(self))
            }
        }
        impl<'de> serde::Deserialize<'de> for $t {
            fn deserialize<D: serde::Deserializer<'de>>(d: D) -> Result<Self, D::Error> {
                let x = <u32 as serde::Deserialize>::deserialize(d)?;
                let f: fn(u32) -> $t = $make;
                Ok(f(x))
            }
        }
    };
}
serde_as_u32!(Key, |k| k.class, |c| <Key as KeyT>::make(c));
serde_as_u32!(K1, |k| k.0 as u32, |c| K1(c as u8));
serde_as_u32!(K2, |k| k.0 as u32, |c| K2(c as u16));
serde_as_u32!(K4, |k| k.0, |c| K4(c));
serde_as_u32!(K8, |k| k.0 as u32, |c| K8(c as u64));
serde_as_u32!(K3, |k| k.0[0] as u32, |c| <K3 as KeyT>::make(c));
serde_as_u32!(K5, |k| k.0[0] as u32, |c| <K5 as KeyT>::make(c));
serde_as_u32!(K6, |k| k.0[0] as u32, |c| <K6 as KeyT>::make(c));
serde_as_u32!(K7, |k| k.0[0] as u32, |c| <K7 as KeyT>::make(c));
impl<P: Pad> serde::Serialize for Val<P> {
    fn serialize<S: serde::Serializer>(&self, s: S) -> Result<S::Ok, S::Error> {
        s.serialize_u32(self.v)
    }
}
impl<'de, P: Pad> serde::Deserialize<'de> for Val<P> {
    fn deserialize<D: serde::Deserializer<'de>>(d: D) -> Result<Self, D::Error> {
        let x = <u32 as serde::Deserialize>::deserialize(d)?;
        Ok(<Val<P> as ValT>::make(x))
    }
}

/// Mock map / sequence input: items, a (possibly lying) size hint, an error injected before item `fail_at`.
pub struct MockInput {
    pub items: Vec<(u32, u32)>,
    pub pos: usize,
    pub hint: Option<usize>,
    pub fail_at: Option<usize>,
    pub pending_value: Option<u32>,
}
use serde::de::IntoDeserializer;
impl<'de> serde::de::MapAccess<'de> for MockInput {
    type Error = serde::de::value::Error;
    fn next_key_seed<K: serde::de::DeserializeSeed<'de>>(&mut self, seed: K) -> Result<Option<K::Value>, Self::Error> {
        if self.fail_at == Some(self.pos) {
            return Err(serde::de::Error::custom("injected input error"));
        }
        if self.pos >= self.items.len() {
            return Ok(None);
        }
        let (k, v) = self.items[self.pos];
        self.pos += 1;
        self.pending_value = Some(v);
        seed.deserialize(k.into_deserializer()).map(Some)
    }
    fn next_value_seed<V: serde::de::DeserializeSeed<'de>>(&mut self, seed: V) -> Result<V::Value, Self::Error> {
        let v = self.pending_value.take().unwrap();
        seed.deserialize(v.into_deserializer())
    }
    fn size_hint(&self) -> Option<usize> {
        self.hint
    }
}
impl<'de> serde::de::SeqAccess<'de> for MockInput {
    type Error = serde::de::value::Error;
    fn next_element_seed<T: serde::de::DeserializeSeed<'de>>(&mut self, seed: T) -> Result<Option<T::Value>, Self::Error> {
        if self.fail_at == Some(self.pos) {
            return Err(serde::de::Error::custom("injected input error"));
        }
        if self.pos >= self.items.len() {
            return Ok(None);
        }
        let (k, _) = self.items[self.pos];
        self.pos += 1;
        seed.deserialize(k.into_deserializer()).map(Some)
    }
    fn size_hint(&self) -> Option<usize> {
        self.hint
    }
}
pub struct MockDe(pub MockInput, pub bool);
impl<'de> serde::Deserializer<'de> for MockDe {
    type Error = serde::de::value::Error;
    fn deserialize_any<V: serde::de::Visitor<'de>>(self, visitor: V) -> Result<V::Value, Self::Error> {
        if self.1 {
            visitor.visit_map(self.0)
        } else {
            visitor.visit_seq(self.0)
        }
    }
    serde::forward_to_deserialize_any! {
        bool i8 i16 i32 i64 i128 u8 u16 u32 u64 u128 f32 f64 char str string bytes byte_buf option unit unit_struct
        newtype_struct seq tuple tuple_struct map struct enum identifier ignored_any
    }
}
