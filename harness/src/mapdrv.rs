//! HashMap operation executor: one `exec` per public call (or per complete borrow scope of an
//! iterator / entry object), used by the random drivers and by the replayer of TLC-generated
//! behaviours alike.

use crate::env::{self, CheckingAlloc, InjectedPanic, KeyT, PlanBH, ValT};
use crate::trace::{Event, TState, Tracer};
use hashbrown::hash_map::{Entry, EntryRef, RawEntryMut, RustcEntry};
use hashbrown::HashMap;
use std::any::Any;
use std::panic::{catch_unwind, AssertUnwindSafe};

pub type Map<K, V> = HashMap<K, V, PlanBH, CheckingAlloc>;

pub struct MapDrv<K: KeyT, V: ValT> {
    pub tabs: Vec<Option<Map<K, V>>>,
    pub hold: Vec<Box<dyn Any>>,
    pub w: usize,
}

pub fn dump_map<K: KeyT, V: ValT>(m: &Option<Map<K, V>>, w: usize) -> TState {
    match m {
        None => TState::dead(w),
        Some(m) => {
            let d = m.verif_dump();
            let pl = m.hasher().pl;
            let mut data = Vec::with_capacity(d.bucket_mask + 1);
            for i in 0..=d.bucket_mask {
                match m.verif_bucket(i) {
                    Some((k, v)) => {
                        env::check_live(k.id(), "dump key");
                        env::check_live(v.id(), "dump value");
                        let h = env::plan_hash(pl, k.class());
                        data.push([
                            k.class() as i64,
                            k.id() as i64,
                            v.v() as i64,
                            v.id() as i64,
                            env::hpos(h) as i64,
                            env::htag(h) as i64,
                        ]);
                    }
                    None => data.push([-1; 6]),
                }
            }
            TState {
                live: true,
                m: d.bucket_mask,
                it: d.items,
                g: d.growth_left,
                c: d.ctrl,
                d: data,
                len: m.len(),
                cap: m.capacity(),
                asz: m.allocation_size(),
                pl,
            }
        }
    }
}

fn kv4<K: KeyT, V: ValT>(k: &K, v: &V) -> Vec<i64> {
    vec![k.class() as i64, k.id() as i64, v.v() as i64, v.id() as i64]
}

impl<K: KeyT, V: ValT> MapDrv<K, V>
where
    for<'a> K: From<&'a K::Q>,
{
    pub fn new(nt: usize, w: usize) -> Self {
        let mut tabs = Vec::new();
        for _ in 0..nt {
            tabs.push(None);
        }
        MapDrv { tabs, hold: Vec::new(), w }
    }

    pub fn states(&self) -> Vec<TState> {
        self.tabs.iter().map(|m| dump_map(m, self.w)).collect()
    }

    fn keep<T: 'static>(&mut self, x: T) {
        self.hold.push(Box::new(x));
    }

    /// Executes one operation, fills in ids/results, writes the event. Returns the panic class
    /// ("" if none).
    pub fn exec(&mut self, mut ev: Event, tr: &mut Tracer) -> String {
        // probe objects that must not be accounted to the window
        let probe: Option<K> = match ev.op.as_str() {
            "get" | "index" => Some(K::make(ev.k as u32)),
            _ => None,
        };
        // a table lost to a faulted call (e.g. a destructor panic while it was being dropped) is re-created first
        if ev.op != "new" && ev.op != "with_capacity" && ev.op != "drop" {
            let mut need = vec![];
            if self.tabs[ev.t - 1].is_none() {
                need.push(ev.t);
            }
            if ev.u >= 1 && ev.u <= self.tabs.len() && ev.u != ev.t && self.tabs[ev.u - 1].is_none() {
                need.push(ev.u);
            }
            for t in need {
                let mut e2 = Event::new("new", t);
                e2.n = (t - 1).min(1) as i64;
                self.exec(e2, tr);
            }
        }
        tr.raw(&format!("{{\"op\":\"begin\",\"name\":\"{}\",\"t\":{},\"k\":{},\"n\":{}}}", ev.op, ev.t, ev.k, ev.n));
        tr.flush(); // the marker must survive a crash inside the call
        // reference for the shrink contract: what a fresh with_capacity(max(len, m)) holds (measured, not computed)
        if ev.op == "shrink_to" || ev.op == "shrink_to_fit" {
            if let Some(m) = self.tabs[ev.t - 1].as_ref() {
                let mm = if ev.op == "shrink_to" { ev.n.max(0) as usize } else { 0 };
                let need = m.len().max(mm);
                let fresh = if need == 0 { 0 } else { HashMap::<K, V, PlanBH, CheckingAlloc>::with_capacity_and_hasher_in(need, PlanBH { pl: 0 }, CheckingAlloc).allocation_size() };
                ev.r = vec![fresh as i64];
            }
        }
        env::begin_window();
        env::arm(&ev.fa, ev.fk);
        let res = catch_unwind(AssertUnwindSafe(|| self.body(&mut ev, probe.as_ref())));
        match res {
            Ok(()) => {}
            Err(p) => {
                if let Some(ip) = p.downcast_ref::<InjectedPanic>() {
                    ev.pn = ip.0.to_string();
                } else if let Some(s) = p.downcast_ref::<&str>() {
                    ev.pn = classify_panic(s);
                } else if let Some(s) = p.downcast_ref::<String>() {
                    ev.pn = classify_panic(s);
                } else {
                    ev.pn = "unknown".to_string();
                }
            }
        }
        if ev.op.starts_with("er_") && ev.pn.is_empty() && ev.r.first() == Some(&0) {
            // the key object was created by `From<&Q>` inside the call: report its identity
            if let Some(m) = self.tabs[ev.t - 1].as_ref() {
                let d = m.verif_dump();
                for i in 0..=d.bucket_mask {
                    if let Some((sk, _)) = m.verif_bucket(i) {
                        if sk.class() as i64 == ev.k {
                            ev.id = sk.id() as i64;
                        }
                    }
                }
            }
        }
        env::check_canaries();
        let st = self.states();
        tr.emit(&ev, &st);
        env::disarm();
        self.hold.clear();
        drop(probe);
        ev.pn.clone()
    }

    fn tab(&mut self, t: usize) -> &mut Map<K, V> {
        self.tabs[t - 1].as_mut().expect("table not live")
    }

    fn body(&mut self, ev: &mut Event, probe: Option<&K>) {
        let t = ev.t;
        let k = ev.k as u32;
        let vv = ev.v as u32;
        match ev.op.as_str() {
            "new" => {
                drop(self.tabs[t - 1].take());
                self.tabs[t - 1] = Some(HashMap::with_hasher_in(PlanBH { pl: ev.n as u8 }, CheckingAlloc));
            }
            "with_capacity" => {
                drop(self.tabs[t - 1].take());
                self.tabs[t - 1] = Some(HashMap::with_capacity_and_hasher_in(
                    ev.n as usize,
                    PlanBH { pl: ev.j as u8 },
                    CheckingAlloc,
                ));
            }
            "drop" => {
                drop(self.tabs[t - 1].take());
            }
            "insert" => {
                let key = K::make(k);
                let val = V::make(vv);
                ev.id = key.id() as i64;
                ev.vid = val.id() as i64;
                let old = self.tab(t).insert(key, val);
                ev.r = match &old {
                    Some(o) => vec![o.v() as i64, o.id() as i64],
                    None => vec![-1, -1],
                };
                self.keep(old);
            }
            "get" => {
                let r = self.tab(t).get_key_value(probe.unwrap());
                ev.r = match r {
                    Some((sk, sv)) => vec![sk.id() as i64, sv.v() as i64, sv.id() as i64],
                    None => vec![-1, -1, -1],
                };
            }
            "get_q" => {
                let r = self.tab(t).get(&K::q(k));
                ev.r = match r {
                    Some(sv) => vec![sv.v() as i64, sv.id() as i64],
                    None => vec![-1, -1],
                };
            }
            "contains" => {
                ev.r = vec![self.tab(t).contains_key(&K::q(k)) as i64];
            }
            "iter_default" => {
                // C09: default-constructed iterators are empty (exact size hint, len, next, fold, clone)
                use hashbrown::hash_map as hm;
                let mut good = 0i64;
                let mut total = 0i64;
                macro_rules! chk {
                    ($it:expr) => {{
                        let mut it = $it;
                        total += 1;
                        let sh = it.size_hint() == (0, Some(0));
                        let ln = it.len() == 0;
                        let n1 = it.next().is_none();
                        let n2 = it.next().is_none();
                        let f = it.fold(0usize, |a, _| a + 1) == 0;
                        if sh && ln && n1 && n2 && f {
                            good += 1;
                        }
                    }};
                }
                chk!(hm::Iter::<K, V>::default());
                chk!(hm::Iter::<K, V>::default().clone());
                chk!(hm::IterMut::<K, V>::default());
                chk!(hm::Keys::<K, V>::default());
                chk!(hm::Keys::<K, V>::default().clone());
                chk!(hm::Values::<K, V>::default());
                chk!(hm::ValuesMut::<K, V>::default());
                chk!(hm::IntoIter::<K, V, CheckingAlloc>::default());
                chk!(hm::IntoKeys::<K, V, CheckingAlloc>::default());
                chk!(hm::IntoValues::<K, V, CheckingAlloc>::default());
                ev.r = vec![good, total];
            }
            "get_mut" => {
                ev.r = match self.tab(t).get_mut(&K::q(k)) {
                    Some(sv) => {
                        sv.set_v(vv);
                        vec![1]
                    }
                    None => vec![0],
                };
            }
            "get_kv_mut" => {
                ev.r = match self.tab(t).get_key_value_mut(&K::q(k)) {
                    Some((sk, sv)) => {
                        sv.set_v(vv);
                        vec![1, sk.id() as i64]
                    }
                    None => vec![0, -1],
                };
            }
            "index" => {
                let m = self.tab(t);
                let sv = &m[probe.unwrap()];
                ev.r = vec![sv.v() as i64];
            }
            "remove" => {
                let old = self.tab(t).remove(&K::q(k));
                ev.r = match &old {
                    Some(o) => vec![o.v() as i64, o.id() as i64],
                    None => vec![-1, -1],
                };
                self.keep(old);
            }
            "remove_entry" => {
                let old = self.tab(t).remove_entry(&K::q(k));
                ev.r = match &old {
                    Some((ok, ov)) => vec![ok.id() as i64, ov.v() as i64, ov.id() as i64],
                    None => vec![-1, -1, -1],
                };
                self.keep(old);
            }
            "try_insert" => {
                let key = K::make(k);
                let val = V::make(vv);
                ev.id = key.id() as i64;
                ev.vid = val.id() as i64;
                let mut kept = None;
                match self.tab(t).try_insert(key, val) {
                    Ok(_) => ev.r = vec![1, -1, -1],
                    Err(e) => {
                        ev.r = vec![0, e.entry.get().v() as i64, e.entry.key().id() as i64];
                        kept = Some(e.value);
                    }
                }
                self.keep(kept);
            }
            "e_or_insert" | "e_or_insert_with" | "e_or_insert_with_key" | "e_and_modify_or_insert" => {
                let key = K::make(k);
                ev.id = key.id() as i64;
                let m = self.tabs[t - 1].as_mut().unwrap();
                let e = m.entry(key);
                let occ = matches!(e, Entry::Occupied(_));
                let mut vid = 0i64;
                let r = match ev.op.as_str() {
                    "e_or_insert" => {
                        let val = V::make(vv);
                        vid = val.id() as i64;
                        e.or_insert(val)
                    }
                    "e_or_insert_with" => e.or_insert_with(|| {
                        let val = V::make(vv);
                        vid = val.id() as i64;
                        val
                    }),
                    "e_or_insert_with_key" => e.or_insert_with_key(|kk| {
                        let val = V::make(vv + kk.class());
                        vid = val.id() as i64;
                        val
                    }),
                    _ => {
                        let val = V::make(vv);
                        vid = val.id() as i64;
                        e.and_modify(|x| {
                            let nv = x.v() + 100;
                            x.set_v(nv)
                        })
                        .or_insert(val)
                    }
                };
                ev.r = vec![occ as i64, r.v() as i64, r.id() as i64];
                ev.vid = vid;
            }
            "e_insert" => {
                let key = K::make(k);
                let val = V::make(vv);
                ev.id = key.id() as i64;
                ev.vid = val.id() as i64;
                let m = self.tabs[t - 1].as_mut().unwrap();
                let e = m.entry(key);
                let occ = matches!(e, Entry::Occupied(_));
                let o = e.insert(val);
                ev.r = vec![occ as i64, o.get().v() as i64, o.key().id() as i64];
            }
            "e_remove" | "e_remove_entry" | "e_occ_insert" | "e_replace_some" | "e_replace_none"
            | "e_and_replace_some" | "e_and_replace_none" | "e_vacant_drop" | "e_insert_entry" | "e_into_key"
            | "e_occ_get_mut" => {
                let key = K::make(k);
                ev.id = key.id() as i64;
                let op = ev.op.clone();
                let m = self.tabs[t - 1].as_mut().unwrap();
                let e = m.entry(key);
                let mut kept: Vec<Box<dyn Any>> = vec![];
                match (op.as_str(), e) {
                    ("e_and_replace_some", e) => {
                        let occ = matches!(e, Entry::Occupied(_));
                        let e2 = e.and_replace_entry_with(|_k, mut old| {
                            old.set_v(vv);
                            Some(old)
                        });
                        ev.r = vec![occ as i64, matches!(e2, Entry::Occupied(_)) as i64];
                    }
                    ("e_and_replace_none", e) => {
                        let occ = matches!(e, Entry::Occupied(_));
                        let e2 = e.and_replace_entry_with(|_k, _old| None);
                        ev.r = vec![occ as i64, matches!(e2, Entry::Occupied(_)) as i64];
                    }
                    ("e_vacant_drop", e) => {
                        ev.r = vec![matches!(e, Entry::Occupied(_)) as i64, e.key().id() as i64];
                    }
                    ("e_remove", Entry::Occupied(o)) => {
                        let old = o.remove();
                        ev.r = vec![1, old.v() as i64, old.id() as i64];
                        kept.push(Box::new(old));
                    }
                    ("e_remove_entry", Entry::Occupied(o)) => {
                        let (ok, ov) = o.remove_entry();
                        ev.r = vec![1, ok.id() as i64, ov.v() as i64, ov.id() as i64];
                        kept.push(Box::new((ok, ov)));
                    }
                    ("e_occ_insert", Entry::Occupied(mut o)) => {
                        let val = V::make(vv);
                        ev.vid = val.id() as i64;
                        let old = o.insert(val);
                        ev.r = vec![1, old.v() as i64, old.id() as i64];
                        kept.push(Box::new(old));
                    }
                    ("e_occ_get_mut", Entry::Occupied(mut o)) => {
                        o.get_mut().set_v(vv);
                        let kid = o.key().id() as i64;
                        let r = o.into_mut();
                        ev.r = vec![1, r.v() as i64, kid];
                    }
                    ("e_replace_some", Entry::Occupied(o)) => {
                        let e2 = o.replace_entry_with(|_k, mut old| {
                            old.set_v(vv);
                            Some(old)
                        });
                        ev.r = vec![1, matches!(e2, Entry::Occupied(_)) as i64];
                    }
                    ("e_replace_none", Entry::Occupied(o)) => {
                        let e2 = o.replace_entry_with(|_k, _old| None);
                        ev.r = vec![1, matches!(e2, Entry::Occupied(_)) as i64];
                    }
                    ("e_insert_entry", Entry::Vacant(v)) => {
                        let val = V::make(vv);
                        ev.vid = val.id() as i64;
                        let o = v.insert_entry(val);
                        ev.r = vec![0, o.get().v() as i64, o.key().id() as i64];
                    }
                    ("e_into_key", Entry::Vacant(v)) => {
                        let kk = v.into_key();
                        ev.r = vec![0, kk.id() as i64];
                        kept.push(Box::new(kk));
                    }
                    (_, Entry::Occupied(o)) => {
                        ev.r = vec![1, o.get().v() as i64, o.key().id() as i64];
                    }
                    (_, Entry::Vacant(v)) => {
                        ev.r = vec![0, v.key().id() as i64];
                    }
                }
                self.hold.extend(kept);
            }
            "er_or_insert" | "er_insert" | "er_and_modify_or_insert" | "er_drop"
            | "er_insert_entry" => {
                let q = K::q(k);
                let op = ev.op.clone();
                let m = self.tabs[t - 1].as_mut().unwrap();
                let e = m.entry_ref(&q);
                let occ = matches!(e, EntryRef::Occupied(_));
                match op.as_str() {
                    "er_or_insert" => {
                        let val = V::make(vv);
                        ev.vid = val.id() as i64;
                        let r = e.or_insert(val);
                        ev.r = vec![occ as i64, r.v() as i64, r.id() as i64];
                    }
                    "er_insert" => {
                        let val = V::make(vv);
                        ev.vid = val.id() as i64;
                        let o = e.insert(val);
                        ev.r = vec![occ as i64, o.get().v() as i64, o.key().id() as i64];
                    }
                    "er_and_modify_or_insert" => {
                        let val = V::make(vv);
                        ev.vid = val.id() as i64;
                        let r = e
                            .and_modify(|x| {
                                let nv = x.v() + 100;
                                x.set_v(nv)
                            })
                            .or_insert(val);
                        ev.r = vec![occ as i64, r.v() as i64, r.id() as i64];
                    }
                    "er_insert_entry" => match e {
                        EntryRef::Vacant(ve) => {
                            let val = V::make(vv);
                            ev.vid = val.id() as i64;
                            let o = ve.insert_entry(val);
                            ev.r = vec![0, o.get().v() as i64, o.key().id() as i64];
                        }
                        EntryRef::Occupied(o) => {
                            ev.r = vec![1, o.get().v() as i64, o.key().id() as i64];
                        }
                    },
                    _ => {
                        ev.r = vec![occ as i64];
                    }
                }
            }
            "rc_or_insert" | "rc_insert" | "rc_remove" | "rc_vacant_drop" | "rc_insert_entry" => {
                let key = K::make(k);
                ev.id = key.id() as i64;
                let op = ev.op.clone();
                let m = self.tabs[t - 1].as_mut().unwrap();
                let e = m.rustc_entry(key);
                let occ = matches!(e, RustcEntry::Occupied(_));
                let mut kept: Vec<Box<dyn Any>> = vec![];
                match (op.as_str(), e) {
                    ("rc_or_insert", e) => {
                        let val = V::make(vv);
                        ev.vid = val.id() as i64;
                        let r = e.or_insert(val);
                        ev.r = vec![occ as i64, r.v() as i64, r.id() as i64];
                    }
                    ("rc_insert", e) => {
                        let val = V::make(vv);
                        ev.vid = val.id() as i64;
                        let o = e.insert(val);
                        ev.r = vec![occ as i64, o.get().v() as i64, o.key().id() as i64];
                    }
                    ("rc_remove", RustcEntry::Occupied(o)) => {
                        let old = o.remove();
                        ev.r = vec![1, old.v() as i64, old.id() as i64];
                        kept.push(Box::new(old));
                    }
                    ("rc_insert_entry", RustcEntry::Vacant(v)) => {
                        let val = V::make(vv);
                        ev.vid = val.id() as i64;
                        let o = v.insert_entry(val);
                        ev.r = vec![0, o.get().v() as i64, o.key().id() as i64];
                    }
                    (_, RustcEntry::Occupied(o)) => {
                        ev.r = vec![1, o.get().v() as i64, o.key().id() as i64];
                    }
                    (_, RustcEntry::Vacant(v)) => {
                        ev.r = vec![0, v.key().id() as i64];
                    }
                }
                self.hold.extend(kept);
            }
            "re_from_key_or_insert" | "re_hashed_or_insert" | "re_from_hash_or_insert" | "re_insert_hashed_nocheck"
            | "re_insert_with_hasher" | "re_remove" | "re_replace_some" | "re_replace_none" | "re_drop" => {
                let op = ev.op.clone();
                let m = self.tabs[t - 1].as_mut().unwrap();
                let pl = m.hasher().pl;
                let h = env::plan_hash(pl, k);
                let q = K::q(k);
                let mut kept: Vec<Box<dyn Any>> = vec![];
                let e = match op.as_str() {
                    "re_from_key_or_insert" | "re_remove" | "re_replace_some" | "re_replace_none" | "re_drop" => {
                        m.raw_entry_mut().from_key(&q)
                    }
                    "re_hashed_or_insert" | "re_insert_hashed_nocheck" => {
                        m.raw_entry_mut().from_key_hashed_nocheck(h, &q)
                    }
                    _ => m.raw_entry_mut().from_hash(h, |kk| kk.class() == k),
                };
                let occ = matches!(e, RawEntryMut::Occupied(_));
                match (op.as_str(), e) {
                    ("re_from_key_or_insert", e) | ("re_hashed_or_insert", e) | ("re_from_hash_or_insert", e) => {
                        let mut ids = (0i64, 0i64);
                        let (rk, rv) = e.or_insert_with(|| {
                            let key = K::make(k);
                            let val = V::make(vv);
                            ids = (key.id() as i64, val.id() as i64);
                            (key, val)
                        });
                        ev.r = vec![occ as i64, rk.id() as i64, rv.v() as i64, rv.id() as i64];
                        ev.id = ids.0;
                        ev.vid = ids.1;
                    }
                    ("re_insert_hashed_nocheck", RawEntryMut::Vacant(v)) => {
                        let key = K::make(k);
                        let val = V::make(vv);
                        ev.id = key.id() as i64;
                        ev.vid = val.id() as i64;
                        let (rk, rv) = v.insert_hashed_nocheck(h, key, val);
                        ev.r = vec![0, rk.id() as i64, rv.v() as i64, rv.id() as i64];
                    }
                    ("re_insert_with_hasher", RawEntryMut::Vacant(v)) => {
                        let key = K::make(k);
                        let val = V::make(vv);
                        ev.id = key.id() as i64;
                        ev.vid = val.id() as i64;
                        let (rk, rv) = v.insert_with_hasher(h, key, val, |kk| env::plan_hash(pl, kk.class()));
                        ev.r = vec![0, rk.id() as i64, rv.v() as i64, rv.id() as i64];
                    }
                    ("re_remove", RawEntryMut::Occupied(o)) => {
                        let (ok, ov) = o.remove_entry();
                        ev.r = vec![1, ok.id() as i64, ov.v() as i64, ov.id() as i64];
                        kept.push(Box::new((ok, ov)));
                    }
                    ("re_replace_some", RawEntryMut::Occupied(o)) => {
                        let e2 = o.replace_entry_with(|_k, mut old| {
                            old.set_v(vv);
                            Some(old)
                        });
                        ev.r = vec![1, matches!(e2, RawEntryMut::Occupied(_)) as i64, -1, -1];
                    }
                    ("re_replace_none", RawEntryMut::Occupied(o)) => {
                        let e2 = o.replace_entry_with(|_k, _old| None);
                        ev.r = vec![1, matches!(e2, RawEntryMut::Occupied(_)) as i64, -1, -1];
                    }
                    (_, RawEntryMut::Occupied(o)) => {
                        ev.r = vec![1, o.key().id() as i64, o.get().v() as i64, o.get().id() as i64];
                    }
                    (_, RawEntryMut::Vacant(_)) => {
                        ev.r = vec![0, -1, -1, -1];
                    }
                }
                self.hold.extend(kept);
            }
            "re_get" => {
                let m = self.tabs[t - 1].as_ref().unwrap();
                let pl = m.hasher().pl;
                let h = env::plan_hash(pl, k);
                let r = match ev.n {
                    0 => m.raw_entry().from_key(&K::q(k)),
                    1 => m.raw_entry().from_key_hashed_nocheck(h, &K::q(k)),
                    _ => m.raw_entry().from_hash(h, |kk| kk.class() == k),
                };
                ev.r = match r {
                    Some((sk, sv)) => vec![sk.id() as i64, sv.v() as i64, sv.id() as i64],
                    None => vec![-1, -1, -1],
                };
            }
            "insert_unique_unchecked" => {
                let key = K::make(k);
                let val = V::make(vv);
                ev.id = key.id() as i64;
                ev.vid = val.id() as i64;
                let (rk, rv) = unsafe { self.tab(t).insert_unique_unchecked(key, val) };
                ev.r = vec![rk.id() as i64, rv.v() as i64];
            }
            "extend" => {
                // ks = [k1, v1, k2, v2, ...]
                let mut items = Vec::new();
                let mut y = Vec::new();
                for p in ev.ks.chunks(2) {
                    let key = K::make(p[0] as u32);
                    let val = V::make(p[1] as u32);
                    y.push(kv4(&key, &val));
                    items.push((key, val));
                }
                ev.y = y;
                self.tab(t).extend(items);
            }
            "from_iter" => {
                // FromIterator: the collection is replaced by `items.into_iter().collect()` (Default hasher = plan 0)
                let mut items = Vec::new();
                let mut y = Vec::new();
                for p in ev.ks.chunks(2) {
                    let key = K::make(p[0] as u32);
                    let val = V::make(p[1] as u32);
                    y.push(kv4(&key, &val));
                    items.push((key, val));
                }
                ev.y = y;
                let m: HashMap<K, V, PlanBH, CheckingAlloc> = items.into_iter().collect();
                drop(self.tabs[t - 1].replace(m));
            }
            "clear" => self.tab(t).clear(),
            "reserve" => self.tab(t).reserve(ev.n as usize),
            "try_reserve" => {
                let add = decode_amount(ev.n, ev.j);
                ev.r = match self.tab(t).try_reserve(add) {
                    Ok(()) => vec![0, 0, 0],
                    Err(hashbrown::TryReserveError::CapacityOverflow) => vec![1, 0, 0],
                    Err(hashbrown::TryReserveError::AllocError { layout }) => {
                        vec![2, layout.size().min(i32::MAX as usize) as i64, layout.align() as i64]
                    }
                };
            }
            "shrink_to" => self.tab(t).shrink_to(ev.n as usize),
            "shrink_to_fit" => self.tab(t).shrink_to_fit(),
            "retain" => {
                let keep: Vec<i64> = ev.ks.clone();
                let mut y = Vec::new();
                self.tab(t).retain(|kk, v| {
                    y.push(vec![kk.class() as i64, kk.id() as i64, v.v() as i64, v.id() as i64]);
                    let nv = v.v() + 1000;
                    v.set_v(nv);
                    keep.contains(&(kk.class() as i64))
                });
                ev.y = y;
            }
            "extract_if" => {
                let sel: Vec<i64> = ev.ks.clone();
                let mut visited: Vec<i64> = Vec::new();
                let mut y = Vec::new();
                let mut kept: Vec<(K, V)> = vec![];
                {
                    let m = self.tabs[t - 1].as_mut().unwrap();
                    let mut it = m.extract_if(|kk, v| {
                        visited.push(kk.class() as i64);
                        let nv = v.v() + 1000;
                        v.set_v(nv);
                        sel.contains(&(kk.class() as i64))
                    });
                    let mut cnt = 0;
                    while ev.j < 0 || cnt < ev.j {
                        match it.next() {
                            Some((ok, ov)) => {
                                y.push(kv4(&ok, &ov));
                                kept.push((ok, ov));
                            }
                            None => break,
                        }
                        cnt += 1;
                    }
                }
                ev.y = y;
                ev.r = visited;
                self.keep(kept);
            }
            "drain" => {
                let mut y = Vec::new();
                let mut hints: Vec<i64> = Vec::new();
                let mut kept: Vec<(K, V)> = vec![];
                {
                    let m = self.tabs[t - 1].as_mut().unwrap();
                    let mut it = m.drain();
                    let mut cnt = 0;
                    loop {
                        let (lo, hi) = it.size_hint();
                        hints.push(lo as i64);
                        hints.push(hi.map(|x| x as i64).unwrap_or(-1));
                        hints.push(it.len() as i64);
                        if ev.j >= 0 && cnt >= ev.j {
                            break;
                        }
                        match it.next() {
                            Some((ok, ov)) => {
                                y.push(kv4(&ok, &ov));
                                kept.push((ok, ov));
                            }
                            None => break,
                        }
                        cnt += 1;
                    }
                    if ev.n == 1 {
                        std::mem::forget(it);
                    } else if ev.n == 2 {
                        // the rest is consumed by internal iteration (the specialised fold of the wrapper)
                        it.fold((), |_, (ok, ov)| {
                            y.push(kv4(&ok, &ov));
                            kept.push((ok, ov));
                        });
                    }
                }
                ev.y = y;
                ev.r = hints;
                self.keep(kept);
            }
            "iter" => {
                // n: 0 iter, 1 keys, 2 values, 3 iter_mut, 4 values_mut; j: number of next() calls before
                // switching to fold (-1: next() until None, then two more next()); u: clone position (-1 none)
                let m = self.tabs[t - 1].as_mut().unwrap();
                let (y, r) = walk_map(m, ev.n, ev.j, ev.u as i64);
                ev.y = y;
                ev.r = r;
                ev.u = 0;
            }
            "into_iter" => {
                // n: 0 into_iter, 1 into_keys, 2 into_values; j: consumed before drop (-1 all)
                let m = self.tabs[t - 1].take().unwrap();
                let pl = m.hasher().pl;
                let mut y = Vec::new();
                let mut hints = Vec::new();
                let mut kept: Vec<Box<dyn Any>> = vec![];
                macro_rules! run {
                    ($it:expr, $f:expr) => {{
                        let mut it = $it;
                        let mut cnt = 0;
                        loop {
                            let (lo, hi) = it.size_hint();
                            hints.push(lo as i64);
                            hints.push(hi.map(|x| x as i64).unwrap_or(-1));
                            hints.push(it.len() as i64);
                            if ev.j >= 0 && cnt >= ev.j {
                                break;
                            }
                            match it.next() {
                                Some(x) => {
                                    y.push($f(&x));
                                    kept.push(Box::new(x));
                                }
                                None => break,
                            }
                            cnt += 1;
                        }
                    }};
                }
                match ev.n {
                    0 => run!(m.into_iter(), |x: &(K, V)| kv4(&x.0, &x.1)),
                    1 => run!(m.into_keys(), |x: &K| vec![x.class() as i64, x.id() as i64, -1, -1]),
                    _ => run!(m.into_values(), |x: &V| vec![-1, -1, x.v() as i64, x.id() as i64]),
                }
                ev.y = y;
                ev.r = hints;
                self.hold.extend(kept);
                self.tabs[t - 1] = Some(HashMap::with_hasher_in(PlanBH { pl }, CheckingAlloc));
            }
            "clone" => {
                // table u := clone of table t
                let c = self.tabs[t - 1].as_ref().unwrap().clone();
                drop(self.tabs[ev.u - 1].take());
                self.tabs[ev.u - 1] = Some(c);
            }
            "clone_from" => {
                // table t.clone_from(table u)
                let src = self.tabs[ev.u - 1].take().unwrap();
                let r = catch_unwind(AssertUnwindSafe(|| self.tabs[t - 1].as_mut().unwrap().clone_from(&src)));
                self.tabs[ev.u - 1] = Some(src);
                if let Err(p) = r {
                    std::panic::resume_unwind(p);
                }
            }
            "eq" => {
                let a = self.tabs[t - 1].as_ref().unwrap();
                let b = self.tabs[ev.u - 1].as_ref().unwrap();
                ev.r = vec![(a == b) as i64, (b == a) as i64];
            }
            "get_many_mut" => {
                let qs: Vec<K::Q> = ev.ks.iter().map(|c| K::q(*c as u32)).collect();
                let m = self.tabs[t - 1].as_mut().unwrap();
                let base = vv;
                let mut r: Vec<i64> = Vec::new();
                let mut addrs: Vec<usize> = Vec::new();
                // n = 1: the requests are unsized borrowed keys that share their start address (where the key type has such a form)
                let classes: Vec<u32> = ev.ks.iter().take(4).map(|c| *c as u32).collect();
                let unsized_res = if ev.n == 1 { K::get_many_unsized(m, &classes) } else { None };
                if let Some(res) = unsized_res {
                    for (i, o) in res.into_iter().enumerate() {
                        match o {
                            Some(v) => {
                                // SAFETY: the references returned by get_many_mut are distinct live entries of `m`
                                unsafe { (*v).set_v(base + i as u32) };
                                addrs.push(v as usize);
                                r.push(1);
                            }
                            None => {
                                addrs.push(0);
                                r.push(0);
                            }
                        }
                    }
                    for a in addrs {
                        r.push(if a == 0 { -1 } else { m.verif_index_of(a as *const u8).map(|x| x as i64).unwrap_or(-2) });
                    }
                    ev.r = r;
                    return;
                }
                macro_rules! gm {
                    ($n:expr, $arr:expr) => {{
                        let res: [Option<&mut V>; $n] = m.get_many_mut($arr);
                        for (i, o) in res.into_iter().enumerate() {
                            match o {
                                Some(v) => {
                                    v.set_v(base + i as u32);
                                    addrs.push(v as *mut V as usize);
                                    r.push(1);
                                }
                                None => {
                                    addrs.push(0);
                                    r.push(0);
                                }
                            }
                        }
                    }};
                }
                match qs.len() {
                    0 => gm!(0, [] as [&K::Q; 0]),
                    1 => gm!(1, [&qs[0]]),
                    2 => gm!(2, [&qs[0], &qs[1]]),
                    3 => gm!(3, [&qs[0], &qs[1], &qs[2]]),
                    _ => gm!(4, [&qs[0], &qs[1], &qs[2], &qs[3]]),
                }
                // bucket index of every returned reference
                for a in addrs {
                    r.push(if a == 0 {
                        -1
                    } else {
                        m.verif_index_of(a as *const u8).map(|x| x as i64).unwrap_or(-2)
                    });
                }
                ev.r = r;
            }
            "get_many_kv_mut" => {
                let qs: Vec<K::Q> = ev.ks.iter().map(|c| K::q(*c as u32)).collect();
                let m = self.tabs[t - 1].as_mut().unwrap();
                let base = vv;
                let mut r: Vec<i64> = Vec::new();
                let mut addrs: Vec<usize> = Vec::new();
                macro_rules! gm {
                    ($n:expr, $arr:expr) => {{
                        let res: [Option<(&K, &mut V)>; $n] = m.get_many_key_value_mut($arr);
                        for (i, o) in res.into_iter().enumerate() {
                            match o {
                                Some((_kk, v)) => {
                                    v.set_v(base + i as u32);
                                    addrs.push(v as *mut V as usize);
                                    r.push(1);
                                }
                                None => {
                                    addrs.push(0);
                                    r.push(0);
                                }
                            }
                        }
                    }};
                }
                match qs.len() {
                    0 => gm!(0, [] as [&K::Q; 0]),
                    1 => gm!(1, [&qs[0]]),
                    2 => gm!(2, [&qs[0], &qs[1]]),
                    3 => gm!(3, [&qs[0], &qs[1], &qs[2]]),
                    _ => gm!(4, [&qs[0], &qs[1], &qs[2], &qs[3]]),
                }
                for a in addrs {
                    r.push(if a == 0 {
                        -1
                    } else {
                        m.verif_index_of(a as *const u8).map(|x| x as i64).unwrap_or(-2)
                    });
                }
                ev.r = r;
            }
            "par_iter" => {
                // n: 0 par_iter, 1 par_keys, 2 par_values, 3 par_iter_mut, 4 par_values_mut; j = thread-pool size
                use rayon::prelude::*;
                let m = self.tabs[t - 1].as_mut().unwrap();
                let pool = rayon::ThreadPoolBuilder::new().num_threads(ev.j.max(1) as usize).build().unwrap();
                ev.y = match ev.n {
                    0 => pool.install(|| m.par_iter().map(|(k, v)| kv4(k, v)).collect::<Vec<_>>()),
                    1 => pool.install(|| m.par_keys().map(|k| vec![k.class() as i64, k.id() as i64, -1, -1]).collect::<Vec<_>>()),
                    2 => pool.install(|| m.par_values().map(|v| vec![-1, -1, v.v() as i64, v.id() as i64]).collect::<Vec<_>>()),
                    3 => pool.install(|| m.par_iter_mut().map(|(k, v)| kv4(k, &*v)).collect::<Vec<_>>()),
                    _ => pool.install(|| m.par_values_mut().map(|v| vec![-1, -1, v.v() as i64, v.id() as i64]).collect::<Vec<_>>()),
                };
            }
            "par_drain" | "into_par_iter" => {
                // n: 0 = consume everything, 1 = short-circuiting consumer (find_any class k); j = thread-pool size
                use rayon::prelude::*;
                let pool = rayon::ThreadPoolBuilder::new().num_threads(ev.j.max(1) as usize).build().unwrap();
                let into = ev.op == "into_par_iter";
                let mut owned = if into { self.tabs[t - 1].take() } else { None };
                let pl = owned.as_ref().map(|m| m.hasher().pl).unwrap_or(0);
                let mut kept: Vec<(K, V)> = vec![];
                if ev.n == 2 {
                    // a consumer that panics when it receives class k (the collection must still end up empty and usable)
                    let r = if into {
                        let m = owned.take().unwrap();
                        catch_unwind(AssertUnwindSafe(|| pool.install(|| m.into_par_iter().for_each(|(kk, _)| if kk.class() == k { panic!("injected consumer panic") }))))
                    } else {
                        let m = self.tabs[t - 1].as_mut().unwrap();
                        catch_unwind(AssertUnwindSafe(|| pool.install(|| m.par_drain().for_each(|(kk, _)| if kk.class() == k { panic!("injected consumer panic") }))))
                    };
                    if into {
                        self.tabs[t - 1] = Some(HashMap::with_hasher_in(PlanBH { pl }, CheckingAlloc));
                    }
                    if let Err(p) = r {
                        std::panic::resume_unwind(p);
                    }
                    return;
                }
                if ev.n == 0 {
                    kept = if into {
                        let m = owned.take().unwrap();
                        pool.install(|| m.into_par_iter().collect::<Vec<(K, V)>>())
                    } else {
                        let m = self.tabs[t - 1].as_mut().unwrap();
                        pool.install(|| m.par_drain().collect::<Vec<(K, V)>>())
                    };
                    ev.y = kept.iter().map(|(k, v)| kv4(k, v)).collect();
                    ev.r = vec![kept.len() as i64];
                } else {
                    let found = if into {
                        let m = owned.take().unwrap();
                        pool.install(|| m.into_par_iter().find_any(|(kk, _)| kk.class() == k))
                    } else {
                        let m = self.tabs[t - 1].as_mut().unwrap();
                        pool.install(|| m.par_drain().find_any(|(kk, _)| kk.class() == k))
                    };
                    ev.r = vec![found.as_ref().map_or(-1, |(kk, _)| kk.id() as i64)];
                    ev.y = found.iter().map(|(kk, v)| kv4(kk, v)).collect();
                    kept.extend(found);
                }
                self.keep(kept);
                if into {
                    self.tabs[t - 1] = Some(HashMap::with_hasher_in(PlanBH { pl }, CheckingAlloc));
                }
            }
            "par_extend" => {
                use rayon::prelude::*;
                let pool = rayon::ThreadPoolBuilder::new().num_threads(ev.j.max(1) as usize).build().unwrap();
                let mut items = Vec::new();
                let mut y = Vec::new();
                for p in ev.ks.chunks(2) {
                    let key = K::make(p[0] as u32);
                    let val = V::make(p[1] as u32);
                    y.push(kv4(&key, &val));
                    items.push((key, val));
                }
                ev.y = y;
                let m = self.tabs[t - 1].as_mut().unwrap();
                pool.install(|| m.par_extend(items));
            }
            "par_eq" => {
                let a = self.tabs[t - 1].as_ref().unwrap();
                let b = self.tabs[ev.u - 1].as_ref().unwrap();
                let pool = rayon::ThreadPoolBuilder::new().num_threads(ev.j.max(1) as usize).build().unwrap();
                ev.r = vec![pool.install(|| a.par_eq(b)) as i64, pool.install(|| b.par_eq(a)) as i64];
            }
            "serde_roundtrip" => {
                // table u := deserialize(serialize(table t)) through serde_json values
                let val = serde_json::to_value(self.tabs[t - 1].as_ref().unwrap()).expect("serialize");
                let back: Map<K, V> = serde_json::from_value(val).expect("deserialize");
                drop(self.tabs[ev.u - 1].take());
                self.tabs[ev.u - 1] = Some(back);
            }
            "serde_de" => {
                // ks = [k1, v1, ...]; n = claimed size hint (-1 none, -2 usize::MAX, -3 2^40); j = position of an input error (-1 none)
                let items: Vec<(u32, u32)> = ev.ks.chunks(2).map(|p| (p[0] as u32, p[1] as u32)).collect();
                let hint = match ev.n {
                    -1 => None,
                    -2 => Some(usize::MAX),
                    -3 => Some(1usize << 40),
                    x => Some(x as usize),
                };
                let input = env::MockInput { items, pos: 0, hint, fail_at: if ev.j >= 0 { Some(ev.j as usize) } else { None }, pending_value: None };
                let res: Result<Map<K, V>, _> = serde::Deserialize::deserialize(env::MockDe(input, true));
                let maxal = env::with(|e| e.alloc_events.iter().filter(|a| a.0 == 1).map(|a| a.1).max().unwrap_or(0));
                match res {
                    Ok(mut m) => {
                        ev.r = vec![1, m.capacity() as i64, maxal as i64];
                        m.shrink_to_fit();
                        drop(self.tabs[t - 1].take());
                        self.tabs[t - 1] = Some(m);
                    }
                    Err(_) => ev.r = vec![0, 0, maxal as i64],
                }
            }
            other => panic!("unknown map op {}", other),
        }
    }
}

pub fn classify_panic(s: &str) -> String {
    if s.contains("injected consumer panic") {
        "consumer".into()
    } else if s.contains("duplicate keys found") {
        "dup".into()
    } else if s.contains("capacity overflow") {
        "capov".into()
    } else if s.contains("no entry found for key") || s.contains("key not found") {
        "index".into()
    } else if s.contains("not equivalent") || s.contains("is not equivalent") {
        "noteq".into()
    } else {
        format!("other:{}", s.replace('"', "'").replace('\\', "/").chars().take(120).collect::<String>())
    }
}

/// Amounts for try_reserve: `n` selects a class, `j` an offset.
pub fn decode_amount(n: i64, j: i64) -> usize {
    match n {
        -1 => usize::MAX.wrapping_sub(j as usize),
        -2 => (isize::MAX as usize).wrapping_sub(j as usize),
        -3 => (isize::MAX as usize).wrapping_add(1 + j as usize),
        -4 => (usize::MAX / 16).wrapping_add(j as usize),
        -5 => (usize::MAX / 8).wrapping_add(j as usize),
        -6 => (1usize << 40).wrapping_add(j as usize),
        x => x as usize,
    }
}

fn hint3<I: ExactSizeIterator>(it: &I, r: &mut Vec<i64>) {
    let (lo, hi) = it.size_hint();
    r.push(lo as i64);
    r.push(hi.map(|x| x as i64).unwrap_or(-1));
    r.push(it.len() as i64);
}

fn walk_map<K: KeyT, V: ValT>(m: &mut Map<K, V>, kind: i64, j: i64, clone_at: i64) -> (Vec<Vec<i64>>, Vec<i64>) {
    let mut y: Vec<Vec<i64>> = Vec::new();
    let mut r: Vec<i64> = Vec::new();
    let mref: *const Map<K, V> = m;
    let idx = |p: *const u8| -> i64 {
        unsafe { (*mref).verif_index_of(p).map(|x| x as i64).unwrap_or(-2) }
    };
    macro_rules! walk {
        ($itn:ident, $it:expr, $proj:expr, $clonable:expr, $cproj:expr) => {{
            let mut $itn = $it;
            let mut cnt: i64 = 0;
            let mut fused_checks = 0;
            loop {
                hint3(&$itn, &mut r);
                if clone_at == cnt {
                    if let Some(c) = $clonable {
                        // the clone continues independently from the same position
                        let mut c = c;
                        let mut cy: Vec<i64> = vec![-7];
                        while let Some(x) = c.next() {
                            let e: Vec<i64> = $cproj(x);
                            cy.push(e[0]);
                        }
                        y.push(cy);
                    }
                }
                if j >= 0 && cnt >= j {
                    // switch to fold for the remainder
                    let mut rest: Vec<Vec<i64>> = Vec::new();
                    $itn.fold((), |(), x| rest.push($proj(x)));
                    y.push(vec![-9]);
                    y.extend(rest);
                    break;
                }
                match $itn.next() {
                    Some(x) => y.push($proj(x)),
                    None => {
                        fused_checks += 1;
                        if fused_checks >= 3 {
                            break;
                        }
                        continue;
                    }
                }
                cnt += 1;
            }
        }};
    }
    match kind {
        0 => walk!(
            itx,
            m.iter(),
            |(k, v): (&K, &V)| vec![idx(k as *const K as *const u8), k.class() as i64, k.id() as i64, v.v() as i64, v.id() as i64],
            Some(itx.clone()),
            |(k, _v): (&K, &V)| vec![idx(k as *const K as *const u8)]
        ),
        1 => walk!(
            itx,
            m.keys(),
            |k: &K| vec![idx(k as *const K as *const u8), k.class() as i64, k.id() as i64, -1, -1],
            Some(itx.clone()),
            |k: &K| vec![idx(k as *const K as *const u8)]
        ),
        2 => walk!(
            itx,
            m.values(),
            |v: &V| vec![idx(v as *const V as *const u8), -1, -1, v.v() as i64, v.id() as i64],
            Some(itx.clone()),
            |v: &V| vec![idx(v as *const V as *const u8)]
        ),
        3 => walk!(
            itx,
            m.iter_mut(),
            |(k, v): (&K, &mut V)| vec![idx(k as *const K as *const u8), k.class() as i64, k.id() as i64, v.v() as i64, v.id() as i64],
            None::<hashbrown::hash_map::Iter<'_, K, V>>,
            |(k, _v): (&K, &V)| vec![idx(k as *const K as *const u8)]
        ),
        _ => walk!(
            itx,
            m.values_mut(),
            |v: &mut V| vec![idx(v as *const V as *const u8), -1, -1, v.v() as i64, v.id() as i64],
            None::<hashbrown::hash_map::Iter<'_, K, V>>,
            |(k, _v): (&K, &V)| vec![idx(k as *const K as *const u8)]
        ),
    }
    (y, r)
}
