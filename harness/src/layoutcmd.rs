//! `hbv layout`: records the real capacity / layout / probe arithmetic (through the read-only hooks) as
//! NDJSON so that it can be validated against spec/HbLayout.tla (C17).
//!
//! * `c2b`  : maximal intervals [a, b] of capacities on which `capacity_to_buckets` is constant (a lossless
//!            run-length encoding of an exhaustive scan of 1..2^scan plus windows around every 2^k and 7/8*2^k)
//! * `cap`  : `bucket_mask_to_capacity(mask)`
//! * `lay`  : `calculate_layout_for(size, ctrl_align, buckets)`
//! * `tl`   : `TableLayout::new::<T>()` for concrete element types
//! * `probe`: the first n group positions of a probe sequence
//! Numbers that do not fit TLC's 32-bit integers are written as decimal strings in `*_s` fields as well.

use hashbrown::verif as hv;
use std::io::Write;

fn opt(v: Option<usize>) -> String {
    match v {
        Some(x) => x.to_string(),
        None => "-1".to_string(),
    }
}

/// usable capacity of the chosen bucket count according to the real `bucket_mask_to_capacity`
fn capm(v: Option<usize>) -> String {
    match v {
        Some(b) if b > 0 => hv::bucket_mask_to_capacity(b - 1).to_string(),
        _ => "0".to_string(),
    }
}

pub fn run(out: &str, seed: u64, args: &[String]) -> i32 {
    let scan_bits: u32 = args.first().and_then(|s| s.parse().ok()).unwrap_or(24);
    let window: usize = args.get(1).and_then(|s| s.parse().ok()).unwrap_or(64);
    let mut f: Box<dyn Write> = if out == "-" {
        Box::new(std::io::BufWriter::new(std::io::stdout()))
    } else {
        Box::new(std::io::BufWriter::new(std::fs::File::create(out).unwrap()))
    };
    let w = hv::GROUP_WIDTH;
    writeln!(f, "{{\"f\":\"hdr\",\"W\":{},\"scan_bits\":{},\"window\":{},\"seed\":{}}}", w, scan_bits, window, seed % 1000000007).unwrap();

    // ---- capacity_to_buckets: one element-size class per distinct small-table minimum
    for size in [0usize, 1, 2, 3, 4, 8, 24, 200] {
        // (1) exhaustive scan of 1..2^scan_bits, run-length encoded
        let hi = 1usize << scan_bits;
        let mut a = 1usize;
        let mut v = hv::capacity_to_buckets(1, size, w);
        let mut cap = 2usize;
        while cap <= hi {
            let x = hv::capacity_to_buckets(cap, size, w);
            if x != v {
                writeln!(f, "{{\"f\":\"c2b\",\"size\":{},\"a\":\"{}\",\"b\":\"{}\",\"v\":\"{}\",\"cm\":\"{}\"}}", size, a, cap - 1, opt(v), capm(v)).unwrap();
                a = cap;
                v = x;
            }
            cap += 1;
        }
        writeln!(f, "{{\"f\":\"c2b\",\"size\":{},\"a\":\"{}\",\"b\":\"{}\",\"v\":\"{}\",\"cm\":\"{}\"}}", size, a, hi, opt(v), capm(v)).unwrap();
        // (2) windows around every 2^k and 7/8 * 2^k above the scanned range, up to usize::MAX
        for k in scan_bits..64 {
            for centre in [1usize << k, ((1u128 << k) * 7 / 8) as usize, if k == 63 { usize::MAX - window } else { 1usize << k }] {
                let lo = centre.saturating_sub(window).max(1);
                let hi2 = centre.saturating_add(window);
                let mut a = lo;
                let mut v = hv::capacity_to_buckets(lo, size, w);
                let mut c = lo;
                loop {
                    if c == hi2 {
                        break;
                    }
                    c += 1;
                    let x = hv::capacity_to_buckets(c, size, w);
                    if x != v {
                        writeln!(f, "{{\"f\":\"c2b\",\"size\":{},\"a\":\"{}\",\"b\":\"{}\",\"v\":\"{}\",\"cm\":\"{}\"}}", size, a, c - 1, opt(v), capm(v)).unwrap();
                        a = c;
                        v = x;
                    }
                }
                writeln!(f, "{{\"f\":\"c2b\",\"size\":{},\"a\":\"{}\",\"b\":\"{}\",\"v\":\"{}\",\"cm\":\"{}\"}}", size, a, hi2, opt(v), capm(v)).unwrap();
            }
        }
    }
    // ---- bucket_mask_to_capacity
    for k in 0..63 {
        let mask = (1usize << k) - 1;
        writeln!(f, "{{\"f\":\"cap\",\"mask\":\"{}\",\"v\":\"{}\"}}", mask, hv::bucket_mask_to_capacity(mask)).unwrap();
    }
    // ---- calculate_layout_for
    let mut sizes: Vec<usize> = (0..=64).collect();
    sizes.extend([200, 4096, 1 << 20, (isize::MAX as usize) / 2 - 1, (isize::MAX as usize) / 2, (isize::MAX as usize) / 2 + 1]);
    for &size in &sizes {
        for al in 0..=12 {
            let ealign = 1usize << al;
            if size % ealign != 0 {
                continue; // not a valid Rust type layout
            }
            let ctrl_align = ealign.max(w);
            for k in [0u32, 2, 3, 4, 5, 8, 16, 26, 31, 40, 56, 57, 58, 59, 60, 61, 62, 63] {
                let buckets = 1usize << k;
                let r = hv::calculate_layout_for(size, ctrl_align, buckets);
                match r {
                    Some((len, align, off)) => writeln!(
                        f,
                        "{{\"f\":\"lay\",\"size\":\"{}\",\"ea\":{},\"buckets\":\"{}\",\"ok\":1,\"len\":\"{}\",\"align\":{},\"off\":\"{}\"}}",
                        size, ealign, buckets, len, align, off
                    )
                    .unwrap(),
                    None => writeln!(
                        f,
                        "{{\"f\":\"lay\",\"size\":\"{}\",\"ea\":{},\"buckets\":\"{}\",\"ok\":0,\"len\":\"0\",\"align\":{},\"off\":\"0\"}}",
                        size, ealign, buckets, ctrl_align
                    )
                    .unwrap(),
                }
            }
        }
    }
    // sizes that put `len` into the window around the isize::MAX guard
    for &buckets in &[4usize, 8, 16, 32, 1 << 20] {
        for al in [0usize, 1, 2, 3, 4, 6] {
            let ealign = 1usize << al;
            let ctrl_align = ealign.max(w);
            for d in 0..48usize {
                let target = (isize::MAX as usize) + 24 - d;
                let size = (target - (buckets + w)) / buckets / ealign * ealign;
                let r = hv::calculate_layout_for(size, ctrl_align, buckets);
                match r {
                    Some((len, align, off)) => writeln!(
                        f,
                        "{{\"f\":\"lay\",\"size\":\"{}\",\"ea\":{},\"buckets\":\"{}\",\"ok\":1,\"len\":\"{}\",\"align\":{},\"off\":\"{}\"}}",
                        size, ealign, buckets, len, align, off
                    )
                    .unwrap(),
                    None => writeln!(
                        f,
                        "{{\"f\":\"lay\",\"size\":\"{}\",\"ea\":{},\"buckets\":\"{}\",\"ok\":0,\"len\":\"0\",\"align\":{},\"off\":\"0\"}}",
                        size, ealign, buckets, ctrl_align
                    )
                    .unwrap(),
                }
            }
        }
    }
    // ---- TableLayout::new for concrete types
    macro_rules! tl {
        ($t:ty) => {{
            let (s, ca) = hv::table_layout::<$t>();
            writeln!(
                f,
                "{{\"f\":\"tl\",\"size\":{},\"ea\":{},\"tsize\":{},\"ctrl_align\":{}}}",
                std::mem::size_of::<$t>(),
                std::mem::align_of::<$t>(),
                s,
                ca
            )
            .unwrap();
        }};
    }
    #[repr(align(32))]
    struct A32([u8; 32]);
    #[repr(align(64))]
    struct A64([u8; 64]);
    #[repr(align(4096))]
    struct A4096([u8; 4096]);
    tl!(());
    tl!(u8);
    tl!(u16);
    tl!([u8; 3]);
    tl!(u64);
    tl!((u64, u64, u64));
    tl!([u64; 25]);
    tl!(A32);
    tl!(A64);
    tl!(A4096);
    // ---- probe sequences: every group of the table exactly once
    for k in 0..=14u32 {
        let groups = 1usize << k;
        let buckets = groups * w;
        let mask = buckets - 1;
        let starts: Vec<u64> = if buckets <= 256 {
            (0..buckets as u64).collect()
        } else {
            vec![0, 1, (w - 1) as u64, w as u64, (buckets / 2 + 3) as u64, (buckets - 1) as u64, seed % buckets as u64]
        };
        for s in starts {
            let ps = hv::probe_positions(mask, s, groups);
            // summary: positions modulo W are all equal to the start offset, group indices are a permutation
            let off = ps[0] % w;
            let mut seen = vec![false; groups];
            let mut perm = true;
            for p in &ps {
                if p % w != off {
                    perm = false;
                }
                let g = ((p + buckets - off) % buckets) / w;
                if seen[g] {
                    perm = false;
                }
                seen[g] = true;
            }
            if groups <= 16 {
                writeln!(f, "{{\"f\":\"probe\",\"mask\":{},\"start\":{},\"n\":{},\"ps\":{:?},\"perm\":{}}}", mask, s, groups, ps, perm as u8).unwrap();
            } else {
                writeln!(f, "{{\"f\":\"probe\",\"mask\":{},\"start\":{},\"n\":{},\"ps\":{:?},\"perm\":{}}}", mask, s, groups, &ps[..16], perm as u8).unwrap();
            }
        }
    }
    f.flush().unwrap();
    0
}
