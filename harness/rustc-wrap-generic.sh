#!/bin/bash
# RUSTC_WRAPPER: $1 = rustc path, rest = args. Adds `--cfg miri` only for crate `hashbrown`,
# which selects the portable (generic, 8-byte) control-group back-end without touching /repo.
rustc="$1"; shift
prev=""
for a in "$@"; do
  if [ "$prev" = "--crate-name" ] && [ "$a" = "hashbrown" ]; then
    exec "$rustc" "$@" --cfg miri --check-cfg 'cfg(miri)'
  fi
  prev="$a"
done
exec "$rustc" "$@"
